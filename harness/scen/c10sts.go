package scen

import (
	"encoding/json"
	"fmt"
	"strings"
	"syscall"
	"time"

	"github.com/asaskevich/EventBus"

	"github.com/Trendyol/go-dcp/config"
	"github.com/Trendyol/go-dcp/membership"
	"github.com/Trendyol/go-dcp/stream"

	"verifharness/gal"
)

// kubernetesStatefulSet membership: the real stream.NewVBucketDiscovery in a child process that runs in a UTS namespace
// of its own and gives itself the host name of a pod; compared with StatefulSet.sts_member, and the vBuckets it takes
// with the partition rule.
type stsArg struct {
	Host  string
	Total int
	NumVb int
}

type stsRes struct {
	HostSet bool
	Member  int
	Total   int
	First   int
	Last    int
	Count   int
}

func init() {
	Children["c10sts"] = func(raw json.RawMessage) {
		var a stsArg
		must(json.Unmarshal(raw, &a))
		res := stsRes{}
		if err := syscall.Sethostname([]byte(a.Host)); err == nil {
			res.HostSet = true
		}
		if !res.HostSet {
			b, _ := json.Marshal(res)
			fmt.Println("RESULT " + string(b))
			return
		}
		cfg := &config.Dcp{}
		cfg.Dcp.Group.Membership.Type = membership.KubernetesStatefulSetMembershipType
		cfg.Dcp.Group.Membership.TotalMembers = a.Total
		vd := stream.NewVBucketDiscovery(nil, cfg, a.NumVb, EventBus.New()) // panics (the child dies) when the host name or the group size is refused
		vbs := vd.Get()
		m := vd.GetMetric()
		res.Member, res.Total = m.MemberNumber, m.TotalMembers
		res.Count = len(vbs)
		if len(vbs) > 0 {
			res.First, res.Last = int(vbs[0]), int(vbs[len(vbs)-1])
		}
		b, _ := json.Marshal(res)
		fmt.Println("RESULT " + string(b))
	}
}

func runC10StatefulSet(c *Ctx) {
	type job struct {
		host  string
		total int
	}
	hosts := []string{"dcp-0", "dcp-1", "dcp-7", "my-app-12", "a-b-c-3", "dcp-07", "dcp", "dcp-", "dcp-x", "dcp-3x", "dcp--2", "dcp-+4", "-5", "dcp-99999999999999999999", "dcp-2-"}
	var jobs []job
	for _, h := range hosts {
		for _, t := range []int{1, 4, 8, 13} {
			if !c.Thorough() && (len(h)+t)%2 == 1 && h != "dcp-7" {
				continue
			}
			jobs = append(jobs, job{h, t})
		}
	}
	const nvb = 64
	out := make([]ChildResult, len(jobs))
	Parallel(len(jobs), 16, func(i int) {
		out[i] = RunChildUTS("c10sts", stsArg{Host: jobs[i].host, Total: jobs[i].total, NumVb: nvb}, 30*time.Second)
	})
	var cs []gal.Term
	var rs []string
	for i, j := range jobs {
		rep := map[string]interface{}{"how": "unshare -u vh (child c10sts)", "hostname": j.host, "totalMembers": j.total, "vbuckets": nvb}
		c.Count("statefulset-membership")
		var res *stsRes
		for _, l := range out[i].Lines {
			if strings.HasPrefix(l, "RESULT ") {
				res = &stsRes{}
				_ = json.Unmarshal([]byte(l[7:]), res)
			}
		}
		if res != nil && !res.HostSet {
			c.Note("c10sts: the child could not set its host name (no UTS namespace): not driven")
			continue
		}
		if res == nil && out[i].Fatal == "" && out[i].ExitCode != 2 {
			c.Note("c10sts %q: the child did not run (exit %d): not driven", j.host, out[i].ExitCode)
			continue
		}
		c.Eval(fmt.Sprint("sts ", j.host, j.total), true)
		obs := gal.None()
		if res != nil {
			obs = gal.Some(gal.Tuple(gal.Z(int64(res.Member)), gal.Z(int64(res.Total))))
			rep["observed"] = res
			// monitors: a number within the group, and the vBuckets of that number under the partition rule
			if res.Member < 1 || res.Member > res.Total || res.Total != j.total {
				c.Violate("statefulset-numbering", fmt.Sprintf("host name %q, group size %d: member %d of %d", j.host, j.total, res.Member, res.Total), rep)
			} else {
				q, r := nvb/j.total, nvb%j.total
				k := res.Member - 1
				first := k*q + minInt(k, r)
				cnt := q
				if k < r {
					cnt++
				}
				if res.Count != cnt || (cnt > 0 && (res.First != first || res.Last != first+cnt-1)) {
					c.Violate("statefulset-range", fmt.Sprintf("host name %q, member %d of %d over %d vBuckets: takes %d..%d (%d), the partition rule gives %d..%d (%d)", j.host, res.Member, j.total, nvb, res.First, res.Last, res.Count, first, first+cnt-1, cnt), rep)
				}
			}
		} else {
			rep["died"] = out[i].Fatal
		}
		cs = append(cs, gal.Tuple(gal.Bytes([]byte(j.host)), gal.Z(int64(j.total)), obs))
		rs = append(rs, J(rep))
	}
	c.Emit("sts", "member number of the real kubernetesStatefulSet membership (child process with its own host name) vs StatefulSet.sts_member",
		[]string{"Base.Bytes", "Model.StatefulSet", "Corr.CorrC10"}, "bytes * Z * option (Z * Z)", "chk_sts", cs, rs, 100)
}
