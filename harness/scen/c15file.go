package scen

import (
	"encoding/json"
	"fmt"
	"os"
	"path/filepath"
	"strings"
	"time"

	"github.com/Trendyol/go-dcp/config"
	"github.com/Trendyol/go-dcp/metadata"
)

// Start-up on the real file backend with a checkpoint file that cannot serve the whole assignment: a file that lacks an
// assigned vBucket, a file cut short by a crash while it was written, an empty file. The session must not start on "position 0
// for what could not be loaded"; a complete file (control) resumes where it says. One child process per case: the refusal is a
// panic in a goroutine of the library.
type c15FileArg struct {
	Kind string // complete | missing-vbucket | truncated | empty
}

func init() {
	Children["c15file"] = func(raw json.RawMessage) {
		var a c15FileArg
		must(json.Unmarshal(raw, &a))
		dir, err := os.MkdirTemp("", "c15file")
		must(err)
		defer os.RemoveAll(dir)
		path := filepath.Join(dir, "checkpoint.json")
		full := `{"0":{"checkpoint":{"vbuuid":70,"seqno":5,"snapshot":{"startSeqno":5,"endSeqno":5}},"bucketUuid":""},` +
			`"1":{"checkpoint":{"vbuuid":71,"seqno":6,"snapshot":{"startSeqno":6,"endSeqno":6}},"bucketUuid":""},` +
			`"2":{"checkpoint":{"vbuuid":72,"seqno":7,"snapshot":{"startSeqno":7,"endSeqno":7}},"bucketUuid":""}}`
		// write a complete file with the library's own backend first so that the format is the library's
		fcfg := &config.Dcp{}
		fcfg.Metadata.Type = "file"
		fcfg.Metadata.Config = map[string]string{"fileName": path}
		md := metadata.NewFSMetadata(fcfg)
		_ = full
		must(md.Save(toModelsDocs(map[uint16]SDoc{0: {UUID: 70, Seq: 5, Start: 5, End: 5}, 1: {UUID: 71, Seq: 6, Start: 6, End: 6}, 2: {UUID: 72, Seq: 7, Start: 7, End: 7}}), map[uint16]bool{0: true, 1: true, 2: true}, ""))
		b, err := os.ReadFile(path)
		must(err)
		switch a.Kind {
		case "missing-vbucket":
			must(md.Save(toModelsDocs(map[uint16]SDoc{0: {UUID: 70, Seq: 5, Start: 5, End: 5}, 1: {UUID: 71, Seq: 6, Start: 6, End: 6}}), map[uint16]bool{0: true, 1: true}, ""))
		case "truncated":
			must(os.WriteFile(path, b[:len(b)/2], 0o644))
		case "empty":
			must(os.WriteFile(path, nil, 0o644))
		}
		d := &SDriver{Cfg: SCfg{Colls: map[uint32]string{}}, sent: map[uint64]interface{}{}, MaxVb: 15}
		d.RealMeta = md
		d.fresh()
		d.Client.OnOpen = func(vb uint16) { fmt.Printf("OPENCALL %d\n", vb) }
		sv := &SServer{High: map[uint16]uint64{0: 50, 1: 50, 2: 50}, UUID: map[uint16]uint64{0: 70, 1: 71, 2: 72}}
		d.Disc.Set(0, 2)
		d.setServer(sv)
		d.Stream.Open()
		time.Sleep(50 * time.Millisecond)
		req := map[uint16]uint64{}
		for _, oc := range d.Client.TakeOpens() {
			req[oc.VbID] = oc.Offset.SeqNo
		}
		jb, _ := json.Marshal(req)
		fmt.Println("STARTED " + string(jb))
	}
}

func runC15File(c *Ctx) {
	kinds := []string{"complete", "missing-vbucket", "truncated", "empty"}
	out := make([]ChildResult, len(kinds))
	Parallel(len(kinds), 4, func(i int) { out[i] = RunChild("c15file", c15FileArg{Kind: kinds[i]}, 40*time.Second) })
	for i, k := range kinds {
		rep := map[string]interface{}{"how": "vh child c15file", "backend": "metadata.NewFSMetadata", "checkpoint_file": k, "assigned": []int{0, 1, 2}}
		c.Count("file-backend-startup:" + k)
		c.Eval("file backend start-up "+k, k != "complete")
		started := ""
		for _, l := range out[i].Lines {
			if strings.HasPrefix(l, "STARTED ") {
				started = l[8:]
			}
		}
		rep["exit"], rep["died"] = out[i].ExitCode, out[i].Fatal
		switch {
		case k == "complete" && started != `{"0":5,"1":6,"2":7}`:
			c.Violate("file-backend-startup", fmt.Sprintf("a complete checkpoint file (5, 6, 7): the session requested %q (exit %d %s)", started, out[i].ExitCode, out[i].Fatal), rep)
		case k != "complete" && started != "":
			c.Violate("started-despite-fault", fmt.Sprintf("checkpoint file %s: the session started and requested the streams from %s instead of terminating", k, started), rep)
		}
	}
}
