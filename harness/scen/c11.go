package scen

import (
	"encoding/json"
	"fmt"
	"math/rand"
	"strings"
	"sync"
	"time"

	"github.com/Trendyol/go-dcp/config"
	"github.com/Trendyol/go-dcp/helpers"
	"github.com/Trendyol/go-dcp/membership"
	"github.com/Trendyol/go-dcp/models"
	"github.com/Trendyol/go-dcp/stream"
	"github.com/asaskevich/EventBus"

	"verifharness/gal"
)

func init() { Registry["C11"] = runC11 }

const c11Delay = 400 * time.Millisecond

// membership values (group size, member number) of the schedules; value i of the model is c11Members[i-1]
var c11Members = [][2]int{{1, 1}, {2, 1}, {2, 2}, {3, 1}, {3, 2}, {3, 3}}

var cbNum = map[string]int{"BeforeRebalanceStart": 1, "AfterRebalanceStart": 2, "BeforeRebalanceEnd": 3, "AfterRebalanceEnd": 4,
	"BeforeStreamStart": 5, "AfterStreamStart": 6, "BeforeStreamStop": 7, "AfterStreamStop": 8}

type c11Result struct {
	Ops      []string
	Outs     [][]string
	Cycles   int
	Range    int // number of the membership value whose range the stream is open on (99: none of them)
	RangeVbs [2]int
	LastInfo int // the membership value of the last notification (the initial one when there was none)
	Open     bool
	Stopped  bool
	Notes    []string
	Burst    int  // bursts by the property's definition
	InClose  bool // some notification arrived while a close was in progress
	Term     gal.Term
	Crashed  string
	Discard  string // the harness lost control of the schedule (a timing assumption of its own broke): not a case
}

type c11Arg struct {
	Seed    int64
	Dynamic bool
}

func init() {
	Children["c11"] = func(raw json.RawMessage) {
		var a c11Arg
		_ = json.Unmarshal(raw, &a)
		r := runRebalanceSchedule(newRng(a.Seed), a.Dynamic)
		b, _ := json.Marshal(r)
		fmt.Println("RESULT " + string(b))
	}
}

// runRebalanceChild runs one schedule in its own process: a fatal error in a library goroutine (an unlock of an
// unlocked mutex, a nil dereference) then belongs to that schedule.
func runRebalanceChild(seed int64, dynamic bool) *c11Result {
	cr := RunChild("c11", c11Arg{Seed: seed, Dynamic: dynamic}, 90*time.Second)
	for _, l := range cr.Lines {
		if strings.HasPrefix(l, "RESULT ") {
			r := &c11Result{}
			if json.Unmarshal([]byte(l[7:]), r) == nil {
				return r
			}
		}
	}
	why := fmt.Sprintf("exit %d", cr.ExitCode)
	if cr.TimedOut {
		why = "timed out"
	}
	return &c11Result{Crashed: why + " " + cr.Fatal + " ... " + tail(cr.Stderr, 400)}
}

// runRebalanceSchedule drives the real stream.Rebalance through one schedule chosen online from rng.
func runRebalanceSchedule(rng *rand.Rand, dynamic bool) *c11Result {
	cfg := SCfg{Colls: map[uint32]string{}}
	d := NewSDriverOpt(cfg, map[uint16]SDoc{}, false)
	res := &c11Result{}
	// the real vBucketDiscovery over dynamic membership on a real bus: a membership value is (group size, member number),
	// numbered 1..6 for the model; 12 vBuckets, so the six values give six different ranges
	bus := EventBus.New()
	dcfg := &config.Dcp{}
	dcfg.Dcp.Group.Membership.Type = membership.DynamicMembershipType
	d.RealDisc = stream.NewVBucketDiscovery(nil, dcfg, 12, bus)
	d.fresh()
	d.cfg.Dcp.Group.Membership.RebalanceDelay = c11Delay
	if dynamic {
		d.cfg.Dcp.Group.Membership.Type = membership.DynamicMembershipType
	}
	setInfo := func(i int) {
		bus.Publish(helpers.MembershipChangedBusEventName, &membership.Model{TotalMembers: c11Members[i-1][0], MemberNumber: c11Members[i-1][1]})
		bus.WaitAsync()
	}
	info := 1 + rng.Intn(6)
	srv := &SServer{High: map[uint16]uint64{}, UUID: map[uint16]uint64{}}
	for v := 0; v < 12; v++ {
		srv.High[uint16(v)] = 5
		srv.UUID[uint16(v)] = 70 + uint64(v)
	}
	setInfo(info)
	d.setServer(srv)
	d.Stream.Open()
	d.Hand.Take()
	d.Client.TakeOpens()
	initial := info

	// hold points
	openHold := make(chan struct{})
	var holdMu sync.Mutex
	holdOpens := false
	openArrived := make(chan struct{}, 64)
	d.Client.OnOpen = func(vb uint16) {
		holdMu.Lock()
		h, ch := holdOpens, openHold
		holdMu.Unlock()
		if h {
			openArrived <- struct{}{}
			<-ch
		}
	}
	d.Hand.SetHold("BeforeStreamStop", true)
	d.Hand.SetHold("BeforeRebalanceEnd", true)

	// mirror of the phases, to know which ops are enabled and what to wait for
	phase, timer, blocked, deferred := "open", "nil", 0, 0
	lastNotify := time.Now()
	var lastDelayNotify time.Time // the last notification issued while the harness believed the reopen timer armed
	var ops []gal.Term
	var outs []gal.Term
	emit := func(name string, op gal.Term, cbs []string) {
		ts := make([]gal.Term, len(cbs))
		for i, n := range cbs {
			ts[i] = gal.Term(fmt.Sprintf("(CB %d)", cbNum[n]))
		}
		ops, outs = append(ops, op), append(outs, gal.List(ts))
		res.Ops, res.Outs = append(res.Ops, name), append(res.Outs, cbs)
	}
	waitHeld := func(want string, within time.Duration) bool {
		select {
		case n := <-d.Hand.Held:
			if n != want {
				res.Notes = append(res.Notes, "held at "+n+" while waiting for "+want)
			}
			return true
		case <-time.After(within):
			return false
		}
	}
	startCycleExpected := func() { // a notifier took the lock: it is now held inside Close at BeforeStreamStop
		phase = "closing"
		if phase == "closing" {
			res.Burst += 0
		}
	}
	bursts := 0
	everDeferred := false // deferred timers push the reopen back at times the harness does not control
	burstOpen := false    // a burst is in progress (its reopen has not started yet)
	nOps := 4 + rng.Intn(10)
	for step := 0; step < nOps || phase != "open" || deferred > 0; step++ {
		if step > 60 {
			res.Notes = append(res.Notes, "schedule did not come to rest")
			break
		}
		if res.Discard != "" {
			break
		}
		var choices []string
		// deferred timers are real: the schedule keeps at most one alive and lets it fire while streaming, where its
		// effect is observable
		notifyOK := step < nOps && deferred == 0
		if notifyOK {
			choices = append(choices, "notify", "notify")
		}
		switch phase {
		case "closing":
			choices = append(choices, "closedone", "closedone")
		case "delay":
			if deferred > 0 {
				choices = []string{"deferred"} // the deferred timer was armed before the reopen timer: it fires first
			} else {
				choices = append(choices, "timer")
			}
		case "reopening":
			choices = append(choices, "reopendone", "reopendone")
		case "open":
			if deferred > 0 {
				choices = []string{"deferred"}
			}
		}
		if phase == "delay" { // the real timer may already have fired (it is held at BeforeRebalanceEnd): the only step left is to let it go on
			for _, n := range d.Hand.Peek() {
				if n == "BeforeRebalanceEnd" {
					choices = []string{"timer"}
					if deferred > 0 { // armed before the reopen timer, so it fired first, into the delay
						choices = []string{"deferred-absorbed"}
					}
				}
			}
		}
		if len(choices) == 0 {
			break
		}
		switch choices[rng.Intn(len(choices))] {
		case "notify":
			info = 1 + rng.Intn(6)
			setInfo(info)
			lastNotify = time.Now()
			if !burstOpen {
				bursts++
				burstOpen = true
			}
			if phase == "closing" {
				res.InClose = true
			}
			done := make(chan struct{})
			go func() { d.Stream.Rebalance(); close(done) }()
			switch {
			case phase == "open":
				if !waitHeld("BeforeStreamStop", 2*time.Second) {
					res.Notes = append(res.Notes, "a notification while streaming did not start a close")
				}
				startCycleExpected()
				emit("notify", gal.App("Notify", gal.N(uint64(info))), d.Hand.Take())
			case phase == "closing":
				// the close step is running: the notification finds nothing to do (the reopen reads the latest membership)
				select {
				case <-done:
				case <-time.After(500 * time.Millisecond):
					res.Notes = append(res.Notes, "a notification during the close step did not return")
					blocked++
				}
				emit("notify", gal.App("Notify", gal.N(uint64(info))), d.Hand.Take())
			default:
				select {
				case <-done:
				case <-time.After(500 * time.Millisecond):
					res.Notes = append(res.Notes, "a debounced notification did not return")
				}
				if phase != "delay" {
					deferred++
					everDeferred = true
				} else {
					lastDelayNotify = lastNotify
				}
				emit("notify", gal.App("Notify", gal.N(uint64(info))), d.Hand.Take())
			}
		case "closedone":
			if !d.Hand.Resume() {
				res.Notes = append(res.Notes, "the close was not waiting at BeforeStreamStop")
			}
			closeEnd := time.Now().Add(3 * time.Second)
		closing:
			for {
				for _, n := range d.Hand.Peek() {
					if n == "AfterRebalanceStart" {
						break closing
					}
				}
				if time.Now().After(closeEnd) {
					res.Notes = append(res.Notes, "the close step never finished")
					break
				}
				time.Sleep(time.Millisecond)
			}
			// Rebalance() arms the reopen timer right after this callback returns; the schedules stay out of that window
			// (the model's CloseDone is one step)
			time.Sleep(10 * time.Millisecond)
			phase, timer = "delay", "armed"
			lastNotify = time.Now()
			lastDelayNotify = time.Time{}
			emit("closedone", "CloseDone", d.Hand.TakeThrough("AfterRebalanceStart")) // with dynamic membership the reopen may already have started
		case "deferred":
			deferred--
			if phase == "open" {
				if !waitHeld("BeforeStreamStop", 2*c11Delay+time.Second) {
					res.Notes = append(res.Notes, "a deferred Rebalance() never started its cycle")
				}
				phase = "closing"
				if !burstOpen {
					bursts++
					burstOpen = true
				}
				emit("deferredfire", "DeferredFire", d.Hand.Take())
			} else { // fires during the delay: absorbed by the armed timer (pushes it back)
				time.Sleep(c11Delay + 30*time.Millisecond)
				lastNotify = time.Now().Add(-30 * time.Millisecond)
				emit("deferredfire", "DeferredFire", nil) // a reopen timer that fires meanwhile is held and belongs to the next step
			}
		case "deferred-absorbed":
			deferred--
			emit("deferredfire", "DeferredFire", nil)
		case "timer":
			holdMu.Lock()
			holdOpens = true
			holdMu.Unlock()
			if !waitHeld("BeforeRebalanceEnd", 3*c11Delay+time.Second) {
				res.Notes = append(res.Notes, "the reopen timer never fired")
			} else if t := d.Hand.HeldAt("BeforeRebalanceEnd"); !lastDelayNotify.IsZero() && t.Before(lastDelayNotify) {
				// the machine stalled: the timer had fired before that notification was issued, so it was not a
				// notification "during the delay" at all
				res.Discard = "a notification believed to fall into the delay was issued after the reopen timer had fired"
			} else if dynamic && !everDeferred && time.Since(lastNotify) > c11Delay/2 {
				res.Notes = append(res.Notes, fmt.Sprintf("dynamic membership: the reopen started %v after the close, not immediately", time.Since(lastNotify)))
			}
			if !dynamic && !everDeferred && time.Since(lastNotify) < c11Delay/2 {
				res.Notes = append(res.Notes, fmt.Sprintf("the reopen started %v after the last notification, the configured delay is %v", time.Since(lastNotify), c11Delay))
			}
		drain: // arrivals of earlier reopens
			for {
				select {
				case <-openArrived:
				default:
					break drain
				}
			}
			d.Hand.Resume()
			select {
			case <-openArrived:
			case <-time.After(2 * time.Second):
				res.Notes = append(res.Notes, "the reopen never requested a stream")
			}
			phase, timer = "reopening", "fired"
			burstOpen = false
			emit("timerfire", "TimerFire", d.Hand.Take())
		case "reopendone":
			holdMu.Lock()
			holdOpens = false
			close(openHold)
			openHold = make(chan struct{})
			holdMu.Unlock()
			// drain further arrivals of this reopen
			deadline := time.After(2 * time.Second)
		wait:
			for {
				d.Hand.SetHold("AfterRebalanceEnd", false)
				cbs := d.Hand.Peek()
				for _, n := range cbs {
					if n == "AfterRebalanceEnd" {
						break wait
					}
				}
				select {
				case <-openArrived:
				case <-deadline:
					res.Notes = append(res.Notes, "the reopen never finished")
					break wait
				case <-time.After(2 * time.Millisecond):
				}
			}
			phase, timer = "open", "nil"
			if blocked > 0 {
				blocked--
				if !waitHeld("BeforeStreamStop", 2*time.Second) {
					res.Notes = append(res.Notes, "the notifier waiting for the lock never ran")
				}
				phase = "closing"
				if !burstOpen {
					// by the property's definition the blocked notification belonged to the burst that just ended
				}
			}
			emit("reopendone", "ReopenDone", d.Hand.Take())
		}
	}
	time.Sleep(20 * time.Millisecond)
	m, _ := d.Stream.GetMetric()
	res.Cycles = m.Rebalance
	res.Open = d.Stream.IsOpen()
	res.Range = 0
	if offs, _, _ := d.Stream.GetOffsets(); offs != nil {
		lo, hi, n := 1<<20, -1, 0
		offs.Range(func(vb uint16, _ *models.Offset) bool {
			if int(vb) < lo {
				lo = int(vb)
			}
			if int(vb) > hi {
				hi = int(vb)
			}
			n++
			return true
		})
		res.Range = 99
		for i, m := range c11Members {
			size := 12 / m[0]
			if lo == (m[1]-1)*size && hi == m[1]*size-1 && n == size {
				res.Range = i + 1
			}
		}
		res.RangeVbs = [2]int{lo, hi}
	}
	select {
	case <-d.stopCh:
		res.Stopped = true
	default:
	}
	res.Burst = bursts
	_ = timer
	res.LastInfo = info
	_ = initial
	res.Term = gal.Tuple(gal.N(uint64(initial)), gal.List(ops), gal.List(outs), gal.Tuple(gal.Nat(res.Cycles), gal.N(uint64(res.Range)), gal.Bool(res.Open)))
	return res
}

func runC11(c *Ctx) {
	c.Res.Rule = "schedules of the real stream.Rebalance() with the lifecycle callbacks held by the harness: notifications while streaming, inside the close, " +
		"during the delay (timer pushed back), while reopening (deferred), from several goroutines, with the membership value changing; the reopen timer and the " +
		"deferred timers are real (delay 400 ms). Observed per step: the callbacks; at rest: completed cycles, the range the stream is opened on, open, stopCh. " +
		"Distinct = distinct step list; non-trivial = at least two notifications"
	n := c.Pick(48, 400)
	nd := c.Pick(12, 80) // the last nd schedules run with dynamic membership: the reopen starts at once
	n += nd
	seeds := make([]int64, n)
	for i := range seeds {
		seeds[i] = c.Rng.Int63()
	}
	results := make([]*c11Result, n)
	Parallel(n, 16, func(i int) {
		results[i] = runRebalanceChild(seeds[i], i >= n-nd)
	})
	var cs []gal.Term
	var rs []string
	for i, r := range results {
		if r.Crashed != "" {
			c.Violate("process-died", "the process running this schedule of stream.Rebalance() died: "+r.Crashed, map[string]interface{}{"seed": seeds[i], "how": "vh child c11 with this seed"})
			continue
		}
		if r.Discard != "" {
			c.Count("schedule-discarded (" + r.Discard + ")")
			continue
		}
		if i >= n-nd {
			c.Count("dynamic-membership-schedule")
		}
		rep := map[string]interface{}{"seed": seeds[i], "dynamic_membership": i >= n-nd, "steps": r.Ops, "callbacks_per_step": r.Outs, "cycles": r.Cycles, "membership_values": c11Members, "open_on_range_of_value": r.Range, "open_on_vbs": r.RangeVbs, "open": r.Open, "bursts": r.Burst}
		nn := 0
		for _, o := range r.Ops {
			if o == "notify" {
				nn++
			}
			c.Count("step:" + o)
		}
		c.Eval(fmt.Sprint(r.Ops, r.Outs), nn >= 2)
		for _, note := range r.Notes {
			c.Violate("schedule", note, rep)
		}
		// monitors on the observations
		pos := 0
		order := []int{1, 7, 8, 2, 3, 5, 6, 4}
		for _, cbs := range r.Outs {
			for _, n := range cbs {
				if cbNum[n] != order[pos%8] {
					c.Violate("bracketing", fmt.Sprintf("lifecycle callback %s arrived where %d was expected (callbacks per step: %v)", n, order[pos%8], r.Outs), rep)
					pos = -1000
					break
				}
				pos++
			}
			if pos < 0 {
				break
			}
		}
		if r.Stopped {
			c.Violate("rebalance-stopped-client", "a rebalance closed the stop channel of the client", rep)
		}
		if !r.Open {
			c.Violate("not-reopened", "at rest the stream is not open", rep)
		}
		if r.Range != r.LastInfo {
			m := c11Members[r.LastInfo-1]
			c.Violate("stale-range", fmt.Sprintf("at rest the stream is open on vBuckets %d-%d; the latest membership is member %d of %d, whose share of 12 vBuckets is %d-%d (steps %v)",
				r.RangeVbs[0], r.RangeVbs[1], m[1], m[0], (m[1]-1)*(12/m[0]), m[1]*(12/m[0])-1, r.Ops), rep)
		}
		if r.Cycles != r.Burst {
			cl := "extra-cycle"
			if r.InClose && r.Cycles > r.Burst {
				cl = "notification-during-close-runs-second-cycle"
			}
			c.Violate(cl, fmt.Sprintf("%d bursts of notifications caused %d close/reopen cycles (steps %v)", r.Burst, r.Cycles, r.Ops), rep)
		}
		cs = append(cs, r.Term)
		rs = append(rs, J(rep))
		if i < 2 {
			c.Sample(rep)
		}
	}
	c.Emit("reb", "callbacks per step and final state of the real stream.Rebalance vs Rebalance.r_run", []string{"Model.Rebalance", "Corr.CorrC11"},
		"N * list rop * list (list rout) * (nat * N * bool)", "chk_reb", cs, rs, 60)
	// the closed window and the reopen from the store are exercised on the stream core
	mon := monitorStream("C11")
	runStreamHistories(c, "c04", c.Pick(120, 1500), "c04", nil, mon, ignoredMonitor)
	// servers older than 5.5.0: the close half closes the streams one by one
	runLegacy(c, []string{"rebalance"}, c.Pick(4, 8), c.Pick(40, 120))
	runLegacySignals(c)
	runC11Extra(c)
	// "reopened on the range of the most recent membership information": the membership objects keep the last announcement
	runAnnouncementOrder(c)
	// the whole client against the simulated node (real gocbcore agents; the node answers every CLOSE_STREAM and then sends the
	// end of that stream): rebalance cycles, then documents and Close() as in C13
	nw := c.Pick(4, 16)
	wres := make([]*c13WireRes, nw)
	wargs := make([]c13WireArg, nw)
	for i := range wargs {
		wargs[i] = c13WireArg{Seed: c.Rng.Int63(), Mitigation: i%2 == 1, Rebalances: 3 + i%3}
	}
	Parallel(nw, 4, func(i int) {
		cr := RunChild("c13wire", wargs[i], 120*time.Second)
		for _, l := range cr.Lines {
			if strings.HasPrefix(l, "RESULT ") {
				r := &c13WireRes{}
				if json.Unmarshal([]byte(l[7:]), r) == nil {
					wres[i] = r
				}
			}
		}
	})
	for i, r := range wres {
		rep := map[string]interface{}{"how": "vh child c13wire", "arg": wargs[i]}
		c.Eval(fmt.Sprint("wire-rebalance", wargs[i]), true)
		c.Count("whole-client-rebalance-cycles")
		switch {
		case r == nil:
			c.Violate("wire-rebalance", "the whole client against the simulated node died during rebalance cycles", rep)
		case !r.Ready:
			c.Note("wire-level rebalance cycles: the client did not become ready: %v", r.Notes)
		case r.StoppedAfter > 0:
			rep["observed"] = r
			c.Violate("wire-rebalance", fmt.Sprintf("the client stopped by itself after rebalance cycle %d: %v", r.StoppedAfter, r.Notes), rep)
		case r.RebalancesDone != wargs[i].Rebalances:
			rep["observed"] = r
			c.Violate("wire-rebalance", fmt.Sprintf("%d of %d rebalance cycles completed: %v", r.RebalancesDone, wargs[i].Rebalances, r.Notes), rep)
		case r.Result != "returned":
			rep["observed"] = r
			c.Violate("wire-rebalance", "after the rebalance cycles Close(): Start() "+r.Result, rep)
		case r.Consumed != r.Sent:
			rep["observed"] = r
			c.Violate("wire-rebalance", fmt.Sprintf("after the rebalance cycles %d documents were sent on the reopened streams, %d reached the consumer", r.Sent, r.Consumed), rep)
		}
	}
}
