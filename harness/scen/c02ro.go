package scen

import (
	"encoding/json"
	"fmt"
	"strings"
	"time"
)

// metadata.readOnly with a backend of the application's own (SetMetadata): the real Dcp must load through it and never write
// to it -- not by the schedule, not by Commit(), not by the final save of Close(). One child process per run.
type roRes struct {
	Loads, Saves int
	Stored       map[uint16]uint64
	Result       string
	Requested    map[uint16]uint64
}

func init() {
	Children["c02ro"] = func(raw json.RawMessage) {
		var a struct{ ReadOnly bool }
		must(json.Unmarshal(raw, &a))
		initial := map[uint16]SDoc{0: {UUID: 70, Seq: 4, Start: 4, End: 4}, 1: {UUID: 71, Seq: 2, Start: 2, End: 2}}
		d := NewSDriverDcp(SCfg{Colls: map[uint32]string{}}, initial, true, false, 2)
		d.cfg.Metadata.ReadOnly = a.ReadOnly
		d.Store.Gate = false
		sv := &SServer{High: map[uint16]uint64{0: 30, 1: 30}, UUID: map[uint16]uint64{0: 70, 1: 71}}
		d.execStart(SOp{Kind: "open", Sv: sv})
		res := roRes{Requested: map[uint16]uint64{}, Stored: map[uint16]uint64{}}
		for vb := uint16(0); vb < 2; vb++ {
			ob := d.Client.Observer(vb)
			d.deliver(ob, vb, &SEv{Kind: "marker", S: 0, E: 30})
			for seq := uint64(5); seq <= 7; seq++ {
				n := d.Cons.Count()
				d.deliver(ob, vb, &SEv{Kind: "mut", Item: &SItem{Seq: seq, Cas: 1, Key: []byte(fmt.Sprintf("k%d", seq)), Rest: uint64(vb)*100 + seq}})
				if ctx := d.Cons.Ctx(n); ctx != nil {
					ctx.Ack()
				}
			}
		}
		d.Dcp.Commit()
		time.Sleep(30 * time.Millisecond)
		d.Dcp.Close()
		select {
		case r := <-d.startDone:
			res.Result = r
		case <-time.After(4 * time.Second):
			res.Result = "hung"
		}
		res.Saves = d.Store.SaveCount()
		for vb, doc := range d.Store.Snapshot() {
			if doc.Checkpoint != nil {
				res.Stored[vb] = doc.Checkpoint.SeqNo
			}
		}
		b, _ := json.Marshal(res)
		fmt.Println("RESULT " + string(b))
	}
}

func runC02ReadOnly(c *Ctx) {
	for _, ro := range []bool{true, false} {
		cr := RunChild("c02ro", map[string]bool{"ReadOnly": ro}, 40*time.Second)
		rep := map[string]interface{}{"how": "vh child c02ro", "metadata.readOnly": ro, "backend": "installed with SetMetadata",
			"history": "checkpoints 4 / 2 stored; Start; events 5..7 of both vBuckets acknowledged; Commit(); Close()"}
		c.Count("read-only-custom-backend")
		c.Eval(fmt.Sprint("read-only ", ro), true)
		var res *roRes
		for _, l := range cr.Lines {
			if strings.HasPrefix(l, "RESULT ") {
				res = &roRes{}
				_ = json.Unmarshal([]byte(l[7:]), res)
			}
		}
		if res == nil {
			c.Violate("read-only-mode", fmt.Sprintf("metadata.readOnly=%v with a backend of the application's own: the process died (exit %d) %s", ro, cr.ExitCode, cr.Fatal), rep)
			continue
		}
		rep["observed"] = res
		switch {
		case ro && (res.Saves != 0 || res.Stored[0] != 4 || res.Stored[1] != 2):
			c.Violate("read-only-mode", fmt.Sprintf("metadata.readOnly=true: %d writes reached the backend, stored checkpoints now %v (were 4 and 2)", res.Saves, res.Stored), rep)
		case !ro && (res.Stored[0] != 7 || res.Stored[1] != 7):
			c.Violate("read-only-mode", fmt.Sprintf("metadata.readOnly=false: after Commit() and Close() the stored checkpoints are %v, the acknowledged positions 7 and 7", res.Stored), rep)
		case res.Result != "returned":
			c.Violate("read-only-mode", "Close(): Start() "+res.Result, rep)
		}
	}
}
