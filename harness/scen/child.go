package scen

import (
	"bytes"
	"context"
	"encoding/json"
	"os"
	"os/exec"
	"strings"
	"sync"
	"time"
)

// Children are scenario parts that must run in their own process because the library panics in
// goroutines of its own (fail-stop). A child prints one line per observation and may die at any point.
var Children = map[string]func(arg json.RawMessage){}

type ChildResult struct {
	Lines    []string
	ExitCode int
	Stderr   string
	TimedOut bool
	Fatal    string // first "fatal error:" or "panic:" line of stderr
}

// RunChild re-executes this binary with VH_CHILD=<name> and the JSON argument on stdin.
func RunChild(name string, arg interface{}, timeout time.Duration) ChildResult {
	return runChild(name, arg, timeout, false)
}

// RunChildUTS runs the child in a UTS namespace of its own (unshare -u), so that it can give itself a host name.
func RunChildUTS(name string, arg interface{}, timeout time.Duration) ChildResult {
	return runChild(name, arg, timeout, true)
}

func runChild(name string, arg interface{}, timeout time.Duration, uts bool) ChildResult {
	b, _ := json.Marshal(arg)
	ctx, cancel := context.WithTimeout(context.Background(), timeout)
	defer cancel()
	cmd := exec.CommandContext(ctx, os.Args[0])
	if uts {
		cmd = exec.CommandContext(ctx, "unshare", "-u", os.Args[0])
	}
	cmd.Env = append(os.Environ(), "VH_CHILD="+name)
	cmd.Stdin = bytes.NewReader(b)
	var so, se bytes.Buffer
	cmd.Stdout, cmd.Stderr = &so, &se
	err := cmd.Run()
	res := ChildResult{Stderr: tail(se.String(), 2000)}
	for _, l := range strings.Split(se.String(), "\n") {
		if strings.HasPrefix(l, "fatal error:") || strings.HasPrefix(l, "panic:") {
			res.Fatal = l
			break
		}
	}
	for _, l := range strings.Split(so.String(), "\n") {
		if l != "" {
			res.Lines = append(res.Lines, l)
		}
	}
	if ctx.Err() != nil {
		res.TimedOut = true
		res.ExitCode = -1
	} else if ee, ok := err.(*exec.ExitError); ok {
		res.ExitCode = ee.ExitCode()
	} else if err != nil {
		res.ExitCode = -2
		res.Stderr += err.Error()
	}
	return res
}

func tail(s string, n int) string {
	if len(s) > n {
		return s[len(s)-n:]
	}
	return s
}

// Parallel runs f(i) for i in [0,n) with at most par at a time.
func Parallel(n, par int, f func(i int)) {
	sem := make(chan struct{}, par)
	var wg sync.WaitGroup
	for i := 0; i < n; i++ {
		wg.Add(1)
		sem <- struct{}{}
		go func(i int) {
			defer wg.Done()
			defer func() { <-sem }()
			f(i)
		}(i)
	}
	wg.Wait()
}
