package scen

import (
	"encoding/json"
	"fmt"
	"math/rand"
	"sort"
	"strings"
	"sync"
	"time"

	"github.com/asaskevich/EventBus"

	"github.com/Trendyol/go-dcp/config"
	"github.com/Trendyol/go-dcp/couchbase"
	"github.com/Trendyol/go-dcp/helpers"
	"github.com/Trendyol/go-dcp/membership"
	"github.com/Trendyol/go-dcp/servicediscovery"

	"verifharness/gal"
	"verifharness/simnode"
)

func init() {
	Registry["C10"] = runC10
	Children["c10cb"] = childC10CB
	Children["c10loops"] = childC10Loops
}

const (
	c10HbInterval = 100 * time.Millisecond
	c10Tolerance  = 200 * time.Millisecond
	c10Limit      = c10HbInterval + c10Tolerance
	c10Margin     = 70 * time.Millisecond
)

func c10Config(group string) *config.Dcp {
	cfg := &config.Dcp{}
	cfg.Metadata.Type = "couchbase"
	cfg.Dcp.Group.Name = group
	cfg.Dcp.Group.Membership.Type = membership.CouchbaseMembershipType
	cfg.Dcp.Group.Membership.Config = map[string]string{
		"heartbeatInterval": c10HbInterval.String(), "heartbeatToleranceDuration": c10Tolerance.String(),
		"monitorInterval": "50ms", "timeout": "2s", "expirySeconds": "3600",
	}
	return cfg
}

// ---- Part A: several cbMembership instances on one simulated bucket, stepped by the harness ----

type c10Op struct {
	Kind  string // register heartbeat expire tick monitor monitorall
	ID    int
	IDs   []int `json:",omitempty"`
	Fresh []int `json:",omitempty"` // filled in when the op runs
}
type c10Out struct {
	Kind string // publish panic quiet
	ID   int
	K, T int
}
type c10Hist struct {
	N      int
	Ops    []c10Op
	Outs   [][]c10Out
	Infos  map[int][2]int // member -> (k, t) at the end (0,0 = none)
	Index  []int          // ids in the index document at the end, in join order
	Notes  []string
	Joined map[int]int64
}

type c10Inst struct {
	m      *couchbase.VerifCBMembership
	bus    EventBus.Bus
	mu     sync.Mutex
	pubs   [][2]int
	lastHb time.Time
	dead   bool // no longer heart-beating
	gone   bool // panicked
	reg    bool
}

func childC10CB(raw json.RawMessage) {
	var a struct{ Seed int64 }
	must(json.Unmarshal(raw, &a))
	h := runCBHistory(newRng(a.Seed))
	b, _ := json.Marshal(h)
	fmt.Println("RESULT " + string(b))
}

func runCBHistory(rng *rand.Rand) *c10Hist {
	h := &c10Hist{Infos: map[int][2]int{}, Joined: map[int]int64{}}
	node, err := simnode.New(simnode.Config{NumVBuckets: 8, BucketName: "b"})
	if err != nil {
		h.Notes = append(h.Notes, "cannot start the simulated node: "+err.Error())
		return h
	}
	defer node.Close()
	group := []string{"g", "grp-1", "x_y"}[rng.Intn(3)]
	h.N = 2 + rng.Intn(5)
	insts := make([]*c10Inst, h.N)
	byID := map[string]int{}
	for i := range insts {
		cfg := c10Config(group)
		ag, err := node.NewAgent()
		if err != nil {
			h.Notes = append(h.Notes, "cannot connect an agent: "+err.Error())
			return h
		}
		defer ag.Close()
		in := &c10Inst{bus: EventBus.New()}
		_ = in.bus.SubscribeAsync(helpers.MembershipChangedBusEventName, func(m *membership.Model) {
			in.mu.Lock()
			in.pubs = append(in.pubs, [2]int{m.MemberNumber, m.TotalMembers})
			in.mu.Unlock()
		}, true)
		in.m = couchbase.VerifNewCBMembership(cfg, couchbase.VerifNewClient(cfg, ag, ag, nil), in.bus)
		byID[in.m.ID()] = i
		insts[i] = in
	}
	takePubs := func(i int) []c10Out {
		in := insts[i]
		in.bus.WaitAsync()
		in.mu.Lock()
		defer in.mu.Unlock()
		var r []c10Out
		for _, p := range in.pubs {
			r = append(r, c10Out{Kind: "publish", ID: i, K: p[0], T: p[1]})
		}
		in.pubs = nil
		return r
	}
	// which heart-beats does a clock accept right now; waits until none is near the limit
	fresh := func() []int {
		for {
			now := time.Now()
			var f []int
			amb := false
			for i, in := range insts {
				if !in.reg {
					continue
				}
				age := now.Sub(in.lastHb)
				switch {
				case age < c10Limit-c10Margin:
					f = append(f, i)
				case age < c10Limit+c10Margin:
					amb = true
				}
			}
			if !amb {
				return f
			}
			time.Sleep(20 * time.Millisecond)
		}
	}
	refresh := func() { // every instance that is still heart-beating does so now
		for _, in := range insts {
			if in.reg && !in.dead && !in.gone {
				in.m.Heartbeat()
				in.lastHb = time.Now()
			}
		}
	}
	monitorOne := func(i int) []c10Out {
		in := insts[i]
		var outs []c10Out
		func() {
			defer func() {
				if r := recover(); r != nil {
					outs = append(outs, c10Out{Kind: "panic", ID: i})
					in.gone = true
				}
			}()
			in.m.Monitor()
		}()
		outs = append(takePubs(i), outs...)
		if len(outs) == 0 {
			outs = []c10Out{{Kind: "quiet"}}
		}
		return outs
	}
	exec := func(op c10Op) {
		var outs []c10Out
		switch op.Kind {
		case "register":
			in := insts[op.ID]
			in.m.Register()
			in.reg, in.lastHb = true, time.Now()
			h.Joined[op.ID] = in.m.JoinTime()
			time.Sleep(2 * time.Millisecond) // join times are wall-clock nanoseconds: keep them distinct
		case "expire":
			node.DeleteDoc(0, insts[op.ID].m.ID())
			insts[op.ID].dead = true
		case "die":
			insts[op.ID].dead = true
		case "tick": // longer than the heart-beat limit: whoever stopped heart-beating is now stale
			time.Sleep(c10Limit + c10Margin + 10*time.Millisecond)
			refresh()
		case "monitor":
			refresh()
			op.Fresh = fresh()
			outs = monitorOne(op.ID)
		case "monitorall": // the monitor rounds of several members at the same time (CAS conflicts on the index)
			refresh()
			op.Fresh = fresh()
			res := make([][]c10Out, len(op.IDs))
			var wg sync.WaitGroup
			for k, id := range op.IDs {
				wg.Add(1)
				go func(k, id int) { defer wg.Done(); res[k] = monitorOne(id) }(k, id)
			}
			wg.Wait()
			for _, r := range res {
				outs = append(outs, r...)
			}
		}
		h.Ops = append(h.Ops, op)
		h.Outs = append(h.Outs, outs)
	}
	// the schedule: joins, deaths (silent, or with the document expiring), quiescent periods, monitor rounds in any order
	live := func() []int {
		var l []int
		for i, in := range insts {
			if in.reg && !in.dead && !in.gone {
				l = append(l, i)
			}
		}
		return l
	}
	next := 0
	steps := 6 + rng.Intn(14)
	for s := 0; s < steps; s++ {
		l := live()
		r := rng.Intn(10)
		switch {
		case (r < 2 || len(l) == 0) && next < h.N:
			exec(c10Op{Kind: "register", ID: next})
			next++
		case r < 3 && len(l) > 1:
			v := l[rng.Intn(len(l))]
			exec(c10Op{Kind: []string{"die", "expire"}[rng.Intn(2)], ID: v})
			if rng.Intn(3) > 0 {
				exec(c10Op{Kind: "tick"})
			}
		case r < 4:
			exec(c10Op{Kind: "tick"})
		case r < 5 && len(l) > 1:
			ids := append([]int{}, l...)
			rng.Shuffle(len(ids), func(a, b int) { ids[a], ids[b] = ids[b], ids[a] })
			exec(c10Op{Kind: "monitorall", IDs: ids[:2+rng.Intn(len(ids)-1)]})
		case len(l) > 0:
			exec(c10Op{Kind: "monitor", ID: l[rng.Intn(len(l))]})
		}
	}
	// quiescence: whoever stopped is stale, every live member runs one more round (in a random order)
	exec(c10Op{Kind: "tick"})
	l := live()
	rng.Shuffle(len(l), func(a, b int) { l[a], l[b] = l[b], l[a] })
	for _, i := range l {
		exec(c10Op{Kind: "monitor", ID: i})
	}
	for i, in := range insts {
		if inf := in.m.Info(); inf != nil {
			h.Infos[i] = [2]int{inf.MemberNumber, inf.TotalMembers}
		}
	}
	if d, ok := node.GetDoc(0, helpers.Prefix+group+":instance:all"); ok {
		all := map[string]int64{}
		_ = json.Unmarshal(d.Value, &all)
		type e struct {
			id int
			j  int64
		}
		var es []e
		for k, v := range all {
			if i, ok := byID[k]; ok {
				es = append(es, e{i, v})
			} else {
				h.Notes = append(h.Notes, "the index names an unknown instance "+k)
			}
		}
		sort.Slice(es, func(a, b int) bool { return es[a].j < es[b].j })
		for _, x := range es {
			h.Index = append(h.Index, x.id)
		}
	}
	return h
}

func (h *c10Hist) term() gal.Term {
	var ops, outs []gal.Term
	nl := func(xs []int) gal.Term {
		u := make([]uint64, len(xs))
		for i, x := range xs {
			u[i] = uint64(x)
		}
		return gal.NList(u)
	}
	for i, op := range h.Ops {
		var ts []gal.Term
		switch op.Kind {
		case "register":
			ops = append(ops, gal.App("Register", gal.N(uint64(op.ID)), gal.N(uint64(op.ID+1)*10)))
		case "expire":
			ops = append(ops, gal.App("Expire", gal.N(uint64(op.ID))))
		case "monitor":
			ops = append(ops, gal.App("Monitor", gal.N(uint64(op.ID)), nl(op.Fresh)))
		case "monitorall":
			for _, id := range op.IDs {
				ops = append(ops, gal.App("Monitor", gal.N(uint64(id)), nl(op.Fresh)))
			}
		default:
			continue
		}
		// one model output per Monitor op: the first of publish / panic, else quiet
		per := map[int]c10Out{}
		for _, o := range h.Outs[i] {
			if o.Kind != "quiet" {
				if _, ok := per[o.ID]; !ok {
					per[o.ID] = o
				}
			}
		}
		one := func(id int) gal.Term {
			o, ok := per[id]
			switch {
			case ok && o.Kind == "publish":
				return gal.App("Publish", gal.N(uint64(id)), gal.Nat(o.K), gal.Nat(o.T))
			case ok && o.Kind == "panic":
				return gal.App("PanicNoSelf", gal.N(uint64(id)))
			}
			return "Quiet"
		}
		switch op.Kind {
		case "monitor":
			ts = []gal.Term{one(op.ID)}
		case "monitorall":
			for _, id := range op.IDs {
				ts = append(ts, one(id))
			}
		default:
			ts = []gal.Term{"Quiet"}
		}
		outs = append(outs, ts...)
	}
	var infos []gal.Term
	for i := 0; i < h.N; i++ {
		if v, ok := h.Infos[i]; ok {
			infos = append(infos, gal.Tuple(gal.N(uint64(i)), gal.Some(gal.Tuple(gal.Nat(v[0]), gal.Nat(v[1])))))
		} else {
			infos = append(infos, gal.Tuple(gal.N(uint64(i)), gal.None()))
		}
	}
	return gal.Tuple(gal.List(ops), gal.List(outs), gal.List(infos), nl(h.Index))
}

// monitorC10CB checks the property on one history from what the instances published (independent of the model).
func monitorC10CB(c *Ctx, h *c10Hist, rep map[string]interface{}) {
	for _, n := range h.Notes {
		c.Violate("harness", n, rep)
	}
	// a numbering is announced only when it differs from the one in effect
	last := map[int][2]int{}
	// replay who is heart-beating
	regd, dead, gone := map[int]bool{}, map[int]bool{}, map[int]bool{}
	for i, op := range h.Ops {
		switch op.Kind {
		case "register":
			regd[op.ID] = true
		case "die", "expire":
			dead[op.ID] = true
		}
		for _, o := range h.Outs[i] {
			switch o.Kind {
			case "publish":
				if last[o.ID] == [2]int{o.K, o.T} {
					c.Violate("announced-unchanged", fmt.Sprintf("member %d announced %d/%d although that numbering was already in effect", o.ID, o.K, o.T), rep)
				}
				last[o.ID] = [2]int{o.K, o.T}
				if o.K < 1 || o.K > o.T {
					c.Violate("number-out-of-range", fmt.Sprintf("member %d announced %d/%d", o.ID, o.K, o.T), rep)
				}
			case "panic":
				gone[o.ID] = true
				if !dead[o.ID] {
					c.Violate("live-member-dropped", fmt.Sprintf("member %d, which was heart-beating, could not find itself in the group and panicked", o.ID), rep)
				}
			}
		}
	}
	// at quiescence: same size, distinct numbers 1..size, in join order
	var liveIDs []int
	for i := 0; i < h.N; i++ {
		if regd[i] && !dead[i] && !gone[i] {
			liveIDs = append(liveIDs, i)
		}
	}
	sort.Slice(liveIDs, func(a, b int) bool { return h.Joined[liveIDs[a]] < h.Joined[liveIDs[b]] })
	for rank, i := range liveIDs {
		got := h.Infos[i]
		if got != [2]int{rank + 1, len(liveIDs)} {
			c.Violate("numbering", fmt.Sprintf("at quiescence %d instances are alive (in join order %v); member %d holds %d/%d, expected %d/%d",
				len(liveIDs), liveIDs, i, got[0], got[1], rank+1, len(liveIDs)), rep)
		}
	}
	// the index document lists the live instances in join order (an instance that registered and died before any round
	// saw it alive stays listed: it is skipped by every round, the numbering does not depend on it)
	var sub []int
	isLive := map[int]bool{}
	for _, i := range liveIDs {
		isLive[i] = true
	}
	for _, i := range h.Index {
		if isLive[i] {
			sub = append(sub, i)
		}
	}
	if len(liveIDs) > 0 && fmt.Sprint(sub) != fmt.Sprint(liveIDs) {
		c.Violate("index", fmt.Sprintf("at quiescence the index document lists %v, alive in join order are %v", h.Index, liveIDs), rep)
	}
}

// ---- Part A': the real timer loops (NewCBMembership) ----

type c10LoopsRes struct {
	Phases []struct {
		What  string
		Alive []int
		Infos map[int][2]int
		Ms    int64 // how long until every live member held the expected numbering (-1: never within the deadline)
	}
	Pubs map[int][][2]int
}

func childC10Loops(raw json.RawMessage) {
	var a struct{ Seed int64 }
	must(json.Unmarshal(raw, &a))
	rng := newRng(a.Seed)
	res := &c10LoopsRes{Pubs: map[int][][2]int{}}
	node, err := simnode.New(simnode.Config{NumVBuckets: 8, BucketName: "b"})
	must(err)
	defer node.Close()
	// watchdog: how long this process was kept from running (a heart-beat that is late because the machine gave the process no
	// time says nothing about the library); every new maximum above 300 ms is reported at once, the process may die later
	go func() {
		worst := 300 * time.Millisecond
		for {
			t0 := time.Now()
			time.Sleep(20 * time.Millisecond)
			if lag := time.Since(t0) - 20*time.Millisecond; lag > worst {
				worst = lag
				fmt.Printf("LAG %d\n", lag.Milliseconds())
			}
		}
	}()
	type inst struct {
		ms   membership.Membership
		mu   sync.Mutex
		pubs [][2]int
	}
	var insts []*inst
	var alive []int
	var mu sync.Mutex
	join := func() {
		cfg := c10Config("g")
		cfg.Dcp.Group.Membership.Config["heartbeatInterval"] = "40ms"
		cfg.Dcp.Group.Membership.Config["heartbeatToleranceDuration"] = "4s" // far above any stall of the machine (scheduling, sockets) seen so far
		cfg.Dcp.Group.Membership.Config["monitorInterval"] = "40ms"
		ag, err := node.NewAgent()
		must(err)
		in := &inst{}
		bus := EventBus.New()
		_ = bus.SubscribeAsync(helpers.MembershipChangedBusEventName, func(m *membership.Model) {
			in.mu.Lock()
			in.pubs = append(in.pubs, [2]int{m.MemberNumber, m.TotalMembers})
			in.mu.Unlock()
		}, true)
		in.ms = couchbase.NewCBMembership(cfg, couchbase.VerifNewClient(cfg, ag, ag, nil), bus)
		mu.Lock()
		insts = append(insts, in)
		alive = append(alive, len(insts)-1)
		mu.Unlock()
		time.Sleep(3 * time.Millisecond)
	}
	info := func(i int) [2]int {
		in := insts[i]
		in.mu.Lock()
		defer in.mu.Unlock()
		if len(in.pubs) == 0 {
			return [2]int{}
		}
		return in.pubs[len(in.pubs)-1]
	}
	settle := func(what string) {
		start := time.Now()
		ms := int64(-1)
		for time.Since(start) < 14*time.Second {
			ok := true
			for rank, i := range alive {
				if info(i) != [2]int{rank + 1, len(alive)} {
					ok = false
				}
			}
			if ok {
				ms = time.Since(start).Milliseconds()
				break
			}
			time.Sleep(10 * time.Millisecond)
		}
		infos := map[int][2]int{}
		for _, i := range alive {
			infos[i] = info(i)
		}
		res.Phases = append(res.Phases, struct {
			What  string
			Alive []int
			Infos map[int][2]int
			Ms    int64
		}{what, append([]int{}, alive...), infos, ms})
	}
	n0 := 1 + rng.Intn(4)
	for i := 0; i < n0; i++ {
		join()
	}
	settle(fmt.Sprintf("%d instances start", n0))
	for step := 0; step < 3+rng.Intn(3); step++ {
		if rng.Intn(2) == 0 && len(alive) > 1 {
			k := rng.Intn(len(alive))
			insts[alive[k]].ms.Close() // stops heart-beating (and monitoring)
			v := alive[k]
			alive = append(alive[:k], alive[k+1:]...)
			settle(fmt.Sprintf("instance %d stops heart-beating", v))
		} else if len(insts) < 8 {
			join()
			settle("a new instance starts")
		}
	}
	for i, in := range insts {
		in.mu.Lock()
		res.Pubs[i] = in.pubs
		in.mu.Unlock()
	}
	b, _ := json.Marshal(res)
	fmt.Println("RESULT " + string(b))
}

// ---- Part B: the leader's service discovery with scripted follower clients ----

type c10Follower struct {
	name     string
	join     int64
	mu       sync.Mutex
	pingFail bool
	rebFail  bool
	calls    [][2]int
}

func (f *c10Follower) Close() error { return nil }
func (f *c10Follower) Ping() error {
	f.mu.Lock()
	defer f.mu.Unlock()
	if f.pingFail {
		return fmt.Errorf("scripted ping failure")
	}
	return nil
}
func (f *c10Follower) Register() error   { return nil }
func (f *c10Follower) IsConnected() bool { return true }
func (f *c10Follower) Reconnect() error  { return nil }
func (f *c10Follower) Rebalance(k, t int) error {
	f.mu.Lock()
	defer f.mu.Unlock()
	f.calls = append(f.calls, [2]int{k, t})
	if f.rebFail {
		return fmt.Errorf("scripted rebalance failure")
	}
	return nil
}
func (f *c10Follower) take() [][2]int {
	f.mu.Lock()
	defer f.mu.Unlock()
	r := f.calls
	f.calls = nil
	return r
}

type c10SDRes struct {
	Ops   []gal.Term
	Outs  []gal.Term
	Rep   map[string]interface{}
	Notes []string
}

// runSDScenario: the real serviceDiscovery as leader; its heartbeat and monitor loops tick every 5 s (hard-coded),
// the monitor loop is started 2.5 s after the heartbeat loop so that the rounds alternate.
func runSDScenario(rng *rand.Rand) *c10SDRes {
	res := &c10SDRes{Rep: map[string]interface{}{}}
	cfg := &config.Dcp{}
	bus := EventBus.New()
	var mu sync.Mutex
	var lpubs [][2]int
	_ = bus.SubscribeAsync(helpers.MembershipChangedBusEventName, func(m *membership.Model) {
		mu.Lock()
		lpubs = append(lpubs, [2]int{m.MemberNumber, m.TotalMembers})
		mu.Unlock()
	}, true)
	sd := servicediscovery.NewServiceDiscovery(cfg, bus)
	sd.BeLeader()
	n := rng.Intn(7) // followers: group sizes 1..7
	fs := make([]*c10Follower, n)
	joins := rng.Perm(n)
	var desc []map[string]interface{}
	for i := range fs {
		fs[i] = &c10Follower{name: fmt.Sprintf("f%d", i), join: int64(joins[i]+1) * 10}
		sd.Add(servicediscovery.NewService(fs[i], fs[i].name, fs[i].join))
		res.Ops = append(res.Ops, gal.App("SAdd", gal.N(uint64(i)), gal.N(uint64(fs[i].join))))
		res.Outs = append(res.Outs, gal.List(nil))
		desc = append(desc, map[string]interface{}{"follower": i, "join": fs[i].join})
	}
	// round 1: some Rebalance RPCs fail; between the rounds some followers stop answering pings and a new one joins; round 2
	var fail1 []uint64
	for i, f := range fs {
		if rng.Intn(4) == 0 {
			f.rebFail = true
			fail1 = append(fail1, uint64(i))
		}
	}
	sd.StartHeartbeat()
	time.Sleep(2500 * time.Millisecond)
	sd.StartMonitor()
	held := map[int][2]int{}
	collect := func(fail []uint64) gal.Term {
		bus.WaitAsync()
		var ts []gal.Term
		mu.Lock()
		for _, p := range lpubs {
			ts = append(ts, gal.App("LPublish", gal.Nat(p[0]), gal.Nat(p[1])))
		}
		lpubs = nil
		mu.Unlock()
		// RCall in the order of the numbers handed out
		type call struct {
			i    int
			k, t int
		}
		var cs []call
		for i, f := range fs {
			for _, c := range f.take() {
				cs = append(cs, call{i, c[0], c[1]})
				failedNow := false
				for _, x := range fail {
					if int(x) == i {
						failedNow = true
					}
				}
				if !failedNow {
					held[i] = [2]int{c[0], c[1]} // what this follower has been told
				}
			}
		}
		sort.Slice(cs, func(a, b int) bool { return cs[a].k < cs[b].k })
		failed := map[uint64]bool{}
		for _, x := range fail {
			failed[x] = true
		}
		for _, c := range cs {
			ts = append(ts, gal.App("RCall", gal.N(uint64(c.i)), gal.Nat(c.k), gal.Nat(c.t)))
		}
		return gal.List(ts)
	}
	time.Sleep(5300 * time.Millisecond) // t = 7.8 s: heartbeat round at 5 s, monitor round 1 at 7.5 s
	res.Ops = append(res.Ops, gal.App("SRound", gal.NList(fail1)))
	res.Outs = append(res.Outs, collect(fail1))
	var removed []uint64
	for i, f := range fs {
		f.mu.Lock()
		f.rebFail = false
		if rng.Intn(3) == 0 {
			f.pingFail = true
			removed = append(removed, uint64(i))
		}
		f.mu.Unlock()
	}
	if rng.Intn(2) == 0 {
		nf := &c10Follower{name: fmt.Sprintf("f%d", len(fs)), join: int64(n+1+rng.Intn(3)) * 10}
		sd.Add(servicediscovery.NewService(nf, nf.name, nf.join))
		res.Ops = append(res.Ops, gal.App("SAdd", gal.N(uint64(len(fs))), gal.N(uint64(nf.join))))
		res.Outs = append(res.Outs, gal.List(nil))
		desc = append(desc, map[string]interface{}{"follower": len(fs), "join": nf.join, "joins_after_round": 1})
		fs = append(fs, nf)
	}
	for _, r := range removed {
		res.Ops = append(res.Ops, gal.App("SRemove", gal.N(r)))
		res.Outs = append(res.Outs, gal.List(nil))
	}
	time.Sleep(5000 * time.Millisecond) // t = 12.8 s: heartbeat round at 10 s removes them, monitor round 2 at 12.5 s
	res.Ops = append(res.Ops, gal.App("SRound", gal.NList(nil)))
	res.Outs = append(res.Outs, collect(nil))
	sd.StopMonitor()
	sd.StopHeartbeat()
	// the property, on what the followers were told: after a round in which every RPC succeeded, the followers the leader
	// still knows hold 2.. in join order out of one more than their number
	gone := map[int]bool{}
	for _, r := range removed {
		gone[int(r)] = true
	}
	var rest []int
	for i := range fs {
		if !gone[i] {
			rest = append(rest, i)
		}
	}
	sort.Slice(rest, func(a, b int) bool { return fs[rest[a]].join < fs[rest[b]].join })
	for rank, i := range rest {
		if held[i] != [2]int{rank + 2, len(rest) + 1} {
			res.Notes = append(res.Notes, fmt.Sprintf("after the second round follower %d (join %d) holds %d/%d; the leader knows %d followers, in join order %v: expected %d/%d",
				i, fs[i].join, held[i][0], held[i][1], len(rest), rest, rank+2, len(rest)+1))
		}
	}
	res.Rep = map[string]interface{}{"followers": desc, "rebalance_rpc_fails_in_round_1": fail1, "ping_fails_before_round_2": removed}
	return res
}

// c10Leader is the client a follower holds towards its leader; like the real rpc client it reports itself connected
// after every successful (re)connect.
type c10Leader struct {
	mu                      sync.Mutex
	pingOK, reconnOK, regOK bool
	connected               bool
	calls                   []string
}

func (l *c10Leader) rec(s string) { l.mu.Lock(); l.calls = append(l.calls, s); l.mu.Unlock() }
func (l *c10Leader) Close() error {
	l.rec("Close")
	l.mu.Lock()
	l.connected = false
	l.mu.Unlock()
	return nil
}
func (l *c10Leader) Ping() error {
	l.rec("Ping")
	if l.pingOK {
		return nil
	}
	return fmt.Errorf("scripted ping failure")
}
func (l *c10Leader) Register() error {
	l.rec("Register")
	if l.regOK {
		return nil
	}
	return fmt.Errorf("scripted register failure")
}
func (l *c10Leader) IsConnected() bool { l.mu.Lock(); defer l.mu.Unlock(); return l.connected }
func (l *c10Leader) Reconnect() error {
	l.rec("Reconnect")
	if l.reconnOK {
		l.mu.Lock()
		l.connected = true
		l.mu.Unlock()
		return nil
	}
	return fmt.Errorf("scripted reconnect failure")
}
func (l *c10Leader) Rebalance(int, int) error { return nil }

// runFollowerRounds (C): one heart-beat round (5 s, hard-coded) of the real serviceDiscovery as a follower, for every
// combination of the leader answering the ping / accepting the reconnect / accepting the registration.
type c10Combo struct{ p, r, g bool }
type c10FObs struct {
	calls []string
}

func collectFollowerRounds() ([]c10Combo, []c10FObs) {
	var combos []c10Combo
	for i := 0; i < 8; i++ {
		combos = append(combos, c10Combo{i&4 != 0, i&2 != 0, i&1 != 0})
	}
	out := make([]c10FObs, len(combos))
	Parallel(len(combos), 8, func(i int) {
		k := combos[i]
		sd := servicediscovery.NewServiceDiscovery(&config.Dcp{}, EventBus.New())
		lc := &c10Leader{pingOK: k.p, reconnOK: k.r, regOK: k.g, connected: true}
		sd.AssignLeader(servicediscovery.NewService(lc, "leader", 1))
		sd.StartHeartbeat()
		// the round starts 5 s after the start (hard-coded): wait for its ping, then for what follows it
		for t0 := time.Now(); time.Since(t0) < 9*time.Second; time.Sleep(20 * time.Millisecond) {
			lc.mu.Lock()
			n := len(lc.calls)
			lc.mu.Unlock()
			if n > 0 {
				break
			}
		}
		time.Sleep(400 * time.Millisecond)
		sd.StopHeartbeat()
		lc.mu.Lock()
		out[i].calls = append([]string{}, lc.calls...)
		lc.mu.Unlock()
	})
	return combos, out
}

func reportFollowerRounds(c *Ctx, combos []c10Combo, out []c10FObs) ([]gal.Term, []string) {
	var cs []gal.Term
	var rs []string
	for i, k := range combos {
		calls := out[i].calls
		rep := map[string]interface{}{"kind": "follower-heartbeat-round", "leader_ping_ok": k.p, "reconnect_ok": k.r, "register_ok": k.g, "calls_on_the_leader_client": calls}
		c.Count("C:follower-round")
		c.Eval(fmt.Sprint("follower round ", k), !k.p)
		still := true
		var ts []gal.Term
		for _, x := range calls {
			switch x {
			case "Reconnect":
				ts = append(ts, "FReconnect")
			case "Register":
				ts = append(ts, "FRegister")
			case "Close":
				ts = append(ts, "FDropLeader")
				still = false
			}
		}
		// monitor: a follower that reached its leader again after a failed ping registers again
		if !k.p && k.r {
			reg := false
			for _, x := range calls {
				reg = reg || x == "Register"
			}
			if !reg {
				c.Violate("follower-not-readmitted", "the ping of the leader failed, the reconnect succeeded, and the follower did not register again (calls on the leader's client: "+fmt.Sprint(calls)+
					"): a leader that dropped it or was restarted numbers the group without it while it keeps streaming under its old number", rep)
			}
		}
		cs = append(cs, gal.Tuple(gal.Tuple(gal.Bool(k.p), gal.Bool(k.r), gal.Bool(k.g)), gal.List(ts), gal.Bool(still)))
		rs = append(rs, J(rep))
	}
	return cs, rs
}

func runC10(c *Ctx) {
	c.Res.Rule = "(A) 2..6 real cbMembership instances (VerifNewCBMembership: the same struct, its register / heartbeat / monitor run by the harness) sharing one bucket of the " +
		"simulated node, in child processes: joins, silent deaths, expiring documents, quiescent periods (real clock, 300 ms heart-beat limit), monitor rounds of single members in any " +
		"order and of several members at once (CAS conflicts); (A') 1..8 instances with the real timer loops of NewCBMembership; (B) the real leader-side serviceDiscovery (5 s loops) " +
		"with scripted follower clients: join orders, failing Rebalance RPCs, failing pings, a late joiner. Distinct = distinct op list; non-trivial = at least one death or failure"
	// (B) first: it only sleeps
	nb := c.Pick(12, 60)
	sdRes := make([]*c10SDRes, nb)
	sdSeeds := make([]int64, nb)
	for i := range sdSeeds {
		sdSeeds[i] = c.Rng.Int63()
	}
	var wg sync.WaitGroup
	wg.Add(2)
	go func() {
		defer wg.Done()
		Parallel(nb, 64, func(i int) { sdRes[i] = runSDScenario(newRng(sdSeeds[i])) })
	}()
	var fCombos []c10Combo
	var fObs []c10FObs
	go func() {
		defer wg.Done()
		fCombos, fObs = collectFollowerRounds()
	}()

	// (A)
	na := c.Pick(48, 400)
	seeds := make([]int64, na)
	for i := range seeds {
		seeds[i] = c.Rng.Int63()
	}
	hs := make([]*c10Hist, na)
	crashed := make([]string, na)
	Parallel(na, 16, func(i int) {
		cr := RunChild("c10cb", map[string]int64{"Seed": seeds[i]}, 120*time.Second)
		for _, l := range cr.Lines {
			if strings.HasPrefix(l, "RESULT ") {
				h := &c10Hist{}
				if json.Unmarshal([]byte(l[7:]), h) == nil {
					hs[i] = h
				}
			}
		}
		if hs[i] == nil {
			crashed[i] = fmt.Sprintf("exit %d %s ... %s", cr.ExitCode, cr.Fatal, tail(cr.Stderr, 400))
		}
	})
	var cs []gal.Term
	var rs []string
	for i, h := range hs {
		if h == nil {
			c.Violate("process-died", "the process running this membership history died: "+crashed[i], map[string]interface{}{"seed": seeds[i]})
			continue
		}
		rep := map[string]interface{}{"seed": seeds[i], "instances": h.N, "ops": h.Ops, "observed": h.Outs, "infos_at_the_end": h.Infos, "index_at_the_end": h.Index}
		nt := false
		for _, op := range h.Ops {
			c.Count("A:" + op.Kind)
			if op.Kind == "die" || op.Kind == "expire" {
				nt = true
			}
		}
		c.Eval(J(h.Ops), nt)
		monitorC10CB(c, h, rep)
		cs = append(cs, h.term())
		rs = append(rs, J(rep))
		if i < 2 {
			c.Sample(rep)
		}
	}
	c.Emit("cb", "publishes / panics per monitor round, numbering and index at the end of real cbMembership instances vs Membership.cb_run",
		[]string{"Model.Membership", "Corr.CorrC10"}, "list cbop * list cbout * list (N * option (nat * nat)) * list N", "chk_cb", cs, rs, 60)

	// (A')
	nl := c.Pick(8, 48)
	lseeds := make([]int64, nl)
	for i := range lseeds {
		lseeds[i] = c.Rng.Int63()
	}
	lres := make([]*c10LoopsRes, nl)
	lcr := make([]string, nl)
	lagMs := make([]int, nl)
	Parallel(nl, 8, func(i int) {
		cr := RunChild("c10loops", map[string]int64{"Seed": lseeds[i]}, 120*time.Second)
		for _, l := range cr.Lines {
			if strings.HasPrefix(l, "RESULT ") {
				r := &c10LoopsRes{}
				if json.Unmarshal([]byte(l[7:]), r) == nil {
					lres[i] = r
				}
			}
		}
		if lres[i] == nil {
			lcr[i] = fmt.Sprintf("exit %d %s ... %s", cr.ExitCode, cr.Fatal, tail(cr.Stderr, 400))
		}
		for _, l := range cr.Lines {
			var ms int
			if n, _ := fmt.Sscanf(l, "LAG %d", &ms); n == 1 && ms > lagMs[i] {
				lagMs[i] = ms
			}
		}
	})
	for i, r := range lres {
		rep := map[string]interface{}{"seed": lseeds[i], "how": "vh child c10loops with this seed"}
		if lagMs[i] >= 1500 {
			// the machine kept the process from running for a large part of the heart-beat tolerance (4 s): not driven
			c.Count("A':discarded-stalled-process")
			c.Note("c10loops seed %d: the process was stalled for %d ms; discarded", lseeds[i], lagMs[i])
			continue
		}
		if r == nil {
			c.Violate("process-died", "the process running instances with the real membership loops died: "+lcr[i], rep)
			continue
		}
		rep["phases"] = r.Phases
		c.Eval(fmt.Sprint("loops", lseeds[i]), len(r.Phases) > 1)
		for _, ph := range r.Phases {
			c.Count("A':phase")
			if ph.Ms < 0 {
				c.Violate("not-converged", fmt.Sprintf("after '%s' the live instances %v held %v fourteen seconds later (heart-beat 40 ms, tolerance 4 s, monitor 40 ms)", ph.What, ph.Alive, ph.Infos), rep)
			}
		}
		for m, ps := range r.Pubs {
			for k := 1; k < len(ps); k++ {
				if ps[k] == ps[k-1] {
					c.Violate("announced-unchanged", fmt.Sprintf("member %d announced %v twice in a row", m, ps[k]), rep)
				}
			}
		}
	}

	// (B)
	wg.Wait()
	var bs []gal.Term
	var br []string
	for i, r := range sdRes {
		r.Rep["seed"] = sdSeeds[i]
		c.Eval(fmt.Sprint("sd", r.Ops), true)
		c.Count("B:scenario")
		for _, n := range r.Notes {
			c.Violate("leader-numbering", n, r.Rep)
		}
		bs = append(bs, gal.Tuple(gal.List(r.Ops), gal.List(r.Outs)))
		br = append(br, J(r.Rep))
		if i == 0 {
			c.Sample(r.Rep)
		}
	}
	c.Emit("sd", "leader publishes and Rebalance RPC arguments per monitor round of the real serviceDiscovery vs Membership.sd_run",
		[]string{"Model.Membership", "Corr.CorrC10"}, "list sdop * list (list sdout)", "chk_sd", bs, br, 60)
	// (C)
	fc, fr := reportFollowerRounds(c, fCombos, fObs)
	c.Emit("follower", "calls of one heart-beat round of the real serviceDiscovery as a follower vs Membership.fh_round",
		[]string{"Model.Membership", "Corr.CorrC10"}, "(bool * bool * bool) * list fhout * bool", "chk_follower", fc, fr, 60)
	// (D) dynamic membership: the numbering arrives through the API (PUT /membership/info of the real api.NewAPI) and is
	// announced on the bus exactly when it differs from the one in effect
	runC16API(c)
	// (E) kubernetesStatefulSet membership
	runC10StatefulSet(c)
	runRetryHelper(c)
	runAnnouncementOrder(c)
	runHaGroup(c)
}
