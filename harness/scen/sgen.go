package scen

import (
	"encoding/json"
	"fmt"
	"math/rand"
	"os"
)

// SParams tunes the online history generator of the stream core.
type SParams struct {
	MaxOps         int
	MaxVbs         int     // size of the assigned range
	WAck           float64 // weights
	WDeliver       float64
	WSave          float64
	WCrash         float64
	WReb           float64
	WEnd           float64
	WScrape        float64
	WClose         float64
	PMetaKey       float64 // probability that a document key is under a reserved prefix
	PSys           float64 // probability that a delivery is a system event / seqno advanced
	PAckInOrd      float64 // acknowledgements in delivery order
	PMalformed     float64 // an event outside its snapshot
	PSaveFail      float64
	POutOfRangeReb float64 // a rebalance moves the range so that old contexts become foreign
	PRoll          float64 // a stream request is first answered with a rollback (0 = the default: 1 in 8 per vBucket, 1 in 5 per reopen)
	BigSeq         bool
	Cfg            *SCfg
	Initial        map[uint16]SDoc
	NoInitial      bool
	Serial         bool
	// histories around a whole Dcp (C13)
	Dcp       bool
	Auto      bool
	Health    bool
	WShutdown float64
	LateOps   int
}

func DefaultSParams() SParams {
	return SParams{MaxOps: 40, MaxVbs: 3, WAck: 3, WDeliver: 5, WSave: 1.5, WCrash: 0.15, WReb: 0.25, WEnd: 0.25, WScrape: 0.2, WClose: 0.05,
		PMetaKey: 0.12, PSys: 0.12, PAckInOrd: 0.7, PMalformed: 0.004, PSaveFail: 0.3, POutOfRangeReb: 0.4}
}

type vbGen struct {
	next    uint64 // next sequence number the server will send
	snapEnd uint64 // end of the snapshot in force (0 = none)
	inSnap  bool
	maxEver uint64
	uuid    uint64
	ended   bool
	sent    map[uint64]SEv // what the server has at each sequence number: a re-sent range shows the same events
}

const casBase = uint64(1700000000) * 1000000000

// GenRun generates a history while executing it on the real stream (so that it knows which
// contexts exist, which saves are in flight, ...). Everything random comes from rng.
func GenRun(rng *rand.Rand, p SParams) *SHistory {
	cfg := SCfg{Finite: rng.Intn(5) == 0, Latest: rng.Intn(3) == 0, Colls: map[uint32]string{}}
	if rng.Intn(3) == 0 {
		t := casBase + uint64(rng.Intn(20))*1000000000 + uint64(rng.Intn(2))*uint64(rng.Intn(1000000000))
		cfg.SkipUntil = &t
	}
	for i := 0; i < rng.Intn(3); i++ {
		cfg.Colls[uint32(8+i)] = fmt.Sprintf("coll%d", i)
	}
	if p.Cfg != nil {
		cfg = *p.Cfg
	}
	base := uint64(0)
	if p.BigSeq {
		base = []uint64{1<<53 - 2, 1<<63 - 3, 1<<64 - 200, 1 << 32}[rng.Intn(4)]
	}
	vbs := map[uint16]*vbGen{}
	vb := func(v uint16) *vbGen {
		if g, ok := vbs[v]; ok {
			return g
		}
		g := &vbGen{next: base + 1, uuid: uint64(rng.Int63n(1<<40)) + 1, sent: map[uint64]SEv{}}
		vbs[v] = g
		return g
	}
	initial := map[uint16]SDoc{}
	if p.Initial != nil {
		initial = p.Initial
	} else if !p.NoInitial && rng.Intn(2) == 0 {
		for v := uint16(0); v < 6; v++ {
			if rng.Intn(2) == 0 {
				s := base + uint64(rng.Intn(20))
				st := s - uint64(rng.Intn(int(minU(s-base, 3))+1))
				initial[v] = SDoc{UUID: vb(v).uuid, Seq: s, Start: st, End: s + uint64(rng.Intn(4))}
			}
		}
	}
	for v, d := range initial {
		g := vb(v)
		g.next = d.Seq + 1
		g.maxEver = d.Seq
	}
	d := NewSDriverOpt(cfg, initial, p.Serial)
	h := &SHistory{Cfg: cfg, Initial: initial, Serial: p.Serial}
	if p.Dcp {
		d = NewSDriverDcp(cfg, initial, p.Auto, p.Health, p.MaxVbs)
		h.IsDcp, h.Auto = true, p.Auto
	}
	down, lateLeft := false, p.LateOps // the teardown has run; ops that may still arrive afterwards
	stopped := false                   // stopCh closed: the client is shutting down, only its close / a restart may follow
	exec := func(op SOp) []SOut {
		if os.Getenv("VH_TRACE") != "" {
			b, _ := json.Marshal(op)
			fmt.Fprintf(os.Stderr, "OP %s\n", b)
		}
		outs := d.Exec(op)
		if os.Getenv("VH_TRACE") != "" {
			b, _ := json.Marshal(outs)
			fmt.Fprintf(os.Stderr, "  -> %s\n", b)
		}
		h.Ops = append(h.Ops, op)
		h.Outs = append(h.Outs, outs)
		for _, o := range outs {
			if o.Kind == "stop" {
				stopped = true
			}
		}
		if op.Kind == "crash" {
			stopped = false
		}
		return outs
	}
	restID := uint64(1)
	nCtx := 0
	outstanding := []int{} // ctx indices not yet acked
	acked := []int{}
	open, balancing, failed, everOpened := false, false, false, false
	first, last := uint16(0), uint16(0)
	inflight := false
	queued := 0
	saveSess, sess := 0, 0 // the save lock belongs to the checkpoint object of a session: queueing is only meaningful within it
	var dirtyOfSave []uint16

	server := func(f, l uint16, allowRoll bool) *SServer {
		sv := &SServer{High: map[uint16]uint64{}, UUID: map[uint16]uint64{}}
		for v := int(f); v <= int(l); v++ {
			g := vb(uint16(v))
			if rng.Intn(6) == 0 {
				g.uuid = uint64(rng.Int63n(1<<40)) + 1
			}
			hi := g.maxEver + uint64(rng.Intn(6))
			if rng.Intn(4) == 0 {
				hi = g.maxEver
			}
			sv.High[uint16(v)] = hi
			sv.UUID[uint16(v)] = g.uuid
			if allowRoll && ((p.PRoll == 0 && rng.Intn(8) == 0) || (p.PRoll > 0 && rng.Float64() < p.PRoll)) {
				sv.Roll = append(sv.Roll, uint16(v))
			}
		}
		return sv
	}
	afterOpen := func(outs []SOut, sv *SServer) {
		for _, o := range outs {
			if o.Kind == "callback" && o.Name == "BeforeStreamStart" {
				sess++
			}
		}
		// the server resumes each vBucket right after the requested position (or earlier after a rollback)
		for _, o := range outs {
			if o.Kind == "openreq" {
				g := vb(o.Vb)
				g.next = o.Off.Seq + 1
				if o.Off.Seq > g.maxEver {
					g.maxEver = o.Off.Seq
				}
				g.inSnap = false
				g.ended = false
				for _, r := range sv.Roll {
					if r == o.Vb && o.Off.Seq > base {
						back := uint64(rng.Intn(3))
						if back > o.Off.Seq-base {
							back = o.Off.Seq - base
						}
						g.next = o.Off.Seq + 1 - back
						if g.next == 0 {
							g.next = 1
						}
					}
				}
			}
			if o.Kind == "fail" {
				failed = true
			}
		}
	}
	pickRange := func() (uint16, uint16) {
		if p.Dcp { // static membership, one member: the whole bucket
			return 0, uint16(p.MaxVbs - 1)
		}
		f := uint16(rng.Intn(4))
		l := f + uint16(rng.Intn(p.MaxVbs))
		return f, l
	}

	// Close(), possibly with a document waiting at the gate of an observer
	doShutdown := func() {
		op := SOp{Kind: "shutdown", R1: rng.Float64() >= p.PSaveFail, R2: rng.Float64() >= p.PSaveFail/2}
		if open && rng.Intn(2) == 0 {
			for v := int(first); v <= int(last); v++ {
				g := vb(uint16(v))
				if !g.ended && g.inSnap && g.next <= g.snapEnd {
					op.Gate = &SEv{Kind: "mut", Item: &SItem{Seq: g.next, Cas: casBase + uint64(rng.Intn(30))*1000000000, Cid: 0, Key: []byte("gated"), Rest: restID}}
					op.GateVb = uint16(v)
					restID++
					g.next++
					break
				}
			}
		}
		outs := exec(op)
		down, open = true, false
		inflight = d.Store.InFlight()
		for _, o := range outs {
			if o.Kind == "fail" || o.Kind == "ignored" {
				failed = true
			}
		}
		if op.Gate != nil && !failed {
			for _, o := range exec(SOp{Kind: "deliver", Vb: op.GateVb, Ev: op.Gate, Released: true}) {
				if o.Kind == "consume" {
					outstanding = append(outstanding, nCtx)
					nCtx++
				}
			}
		}
	}
	for (len(h.Ops) < p.MaxOps || (p.Dcp && !down) || (down && lateLeft > 0)) && !failed {
		if down {
			lateLeft--
		}
		// (the model has one save lock; in the code it belongs to the checkpoint object of a session: Close() with a store
		// call of an earlier session still in flight is a corpus history of C13, not generated here)
		if p.Dcp && !down && len(h.Ops) >= p.MaxOps && queued == 0 && (!inflight || saveSess == sess) {
			doShutdown()
			continue
		}
		if !open && !balancing && !down {
			f, l := pickRange()
			if everOpened && rng.Intn(3) > 0 {
				f, l = first, last
			}
			sv := server(f, l, true)
			outs := exec(SOp{Kind: "open", First: f, Last: l, Sv: sv})
			first, last, open, everOpened = f, l, true, true
			afterOpen(outs, sv)
			continue
		}
		type choice struct {
			w float64
			f func()
		}
		var cs []choice
		add := func(w float64, f func()) {
			if w > 0 {
				cs = append(cs, choice{w, f})
			}
		}
		if open || down {
			var live []uint16 // vBuckets whose stream has not ended for good: the server sends nothing else
			for v := int(first); v <= int(last); v++ {
				if !vb(uint16(v)).ended {
					live = append(live, uint16(v))
				}
			}
			wLive := 0.0
			if len(live) > 0 {
				wLive = 1.0
			}
			add(p.WDeliver*wLive, func() {
				v := live[rng.Intn(len(live))]
				g := vb(v)
				for g.sent[g.next].Kind == "hole" { // nothing exists at these sequence numbers, also when the range is sent again
					g.next++
				}
				var ev SEv
				r := rng.Float64()
				switch {
				case r < p.PMalformed:
					// outside the snapshot in force
					seq := g.next + 5
					if g.inSnap || seq <= g.snapEnd {
						// (the observer keeps the last announced snapshot until the next marker, also when the generator has left it)
						seq = g.snapEnd + 1 + uint64(rng.Intn(3))
					}
					if rng.Intn(2) == 0 {
						// ... a system event of any of the six kinds
						ev = SEv{Kind: "sys", Sys: rng.Intn(6), Seq: seq, Cid: 8}
					} else {
						ev = SEv{Kind: "mut", Item: &SItem{Seq: seq, Cas: casBase + uint64(rng.Intn(30))*1000000000, Key: []byte("late"), Rest: restID}}
						restID++
					}
				case (!g.inSnap || g.next > g.snapEnd) && g.sent[g.next].Kind == "seqadv":
					ev = g.sent[g.next] // sent again after a re-request
					g.next = ev.Seq + 1
					g.inSnap = false
				case !g.inSnap || g.next > g.snapEnd:
					_, again := g.sent[g.next]
					_, again1 := g.sent[g.next+1]
					if !again && !again1 && rng.Float64() < p.PSys/2 {
						ev = SEv{Kind: "seqadv", Seq: g.next + uint64(rng.Intn(2))}
						g.sent[ev.Seq] = ev
						if ev.Seq > g.next {
							g.sent[g.next] = ev
						}
						g.next = ev.Seq + 1
						g.inSnap = false
						if ev.Seq > g.maxEver {
							g.maxEver = ev.Seq
						}
					} else if rng.Intn(25) == 0 {
						ev = SEv{Kind: "oso"}
					} else {
						e := g.next + uint64(rng.Intn(4))
						s := g.next
						if rng.Intn(5) == 0 && g.next > base+1 { // resumed mid-snapshot: the marker starts before the next item
							s = g.next - 1
						}
						ev = SEv{Kind: "marker", S: s, E: e}
						g.inSnap, g.snapEnd = true, e
					}
				case g.sent[g.next].Kind != "":
					// the range is sent again (transient end, rollback, restart): the same event as before
					ev = g.sent[g.next]
					switch ev.Kind {
					case "seqadv":
						g.next = ev.Seq + 1
						g.inSnap = false
					default:
						g.next++
					}
				case rng.Float64() < p.PSys:
					ev = SEv{Kind: "sys", Sys: rng.Intn(6), Seq: g.next, Cid: uint32(8 + rng.Intn(3))}
					g.sent[g.next] = ev
					g.next++
					if ev.Seq > g.maxEver {
						g.maxEver = ev.Seq
					}
				default:
					kind := []string{"mut", "mut", "del", "exp"}[rng.Intn(4)]
					key := []byte(fmt.Sprintf("doc-%d", rng.Intn(1000)))
					if rng.Float64() < p.PMetaKey {
						key = [][]byte{[]byte("_connector:cbgo:g:checkpoint:7"), []byte("_txn:atr-1"), []byte("_connector:cbgo:"), []byte("_connector:cbgo"),
							[]byte("_txn"), []byte(""), {0x5f, 0x74, 0x78, 0x6e, 0x3a, 0x00, 0xff}, []byte("x_connector:cbgo:y"), []byte("_connector:cbgo:g:instance:abc")}[rng.Intn(9)]
					}
					cas := casBase + uint64(rng.Intn(30))*1000000000 + uint64(rng.Intn(1000000000))
					if cfg.SkipUntil != nil && rng.Intn(3) == 0 { // right at the boundary second
						cas = (*cfg.SkipUntil/1000000000)*1000000000 + uint64(rng.Intn(3))*500000000 - uint64(rng.Intn(2))*1000000000
					}
					ev = SEv{Kind: kind, Item: &SItem{Seq: g.next, Cas: cas, Cid: uint32(7 + rng.Intn(4)), Key: key, Rest: restID}}
					g.sent[g.next] = ev
					restID++
					if ev.Item.Seq > g.maxEver {
						g.maxEver = ev.Item.Seq
					}
					g.next++
					if rng.Intn(12) == 0 && g.sent[g.next].Kind == "" { // the server skips sequence numbers (other collections)
						g.sent[g.next] = SEv{Kind: "hole"}
						g.next++
					}
				}
				outs := exec(SOp{Kind: "deliver", Vb: v, Ev: &ev})
				for _, o := range outs {
					if o.Kind == "consume" {
						outstanding = append(outstanding, nCtx)
						nCtx++
					}
					if o.Kind == "fail" {
						failed = true
					}
				}
			})
			add(map[bool]float64{true: 0, false: p.WEnd * wLive}[stopped], func() {
				v := live[rng.Intn(len(live))]
				g := vb(v)
				cause := []string{"transient", "transient", "clean", "final"}[rng.Intn(4)]
				if p.Dcp { // a final end of every stream makes the client shut itself down: not a history of Close()
					cause = "transient"
				}
				op := SOp{Kind: "end", Vb: v, Cause: cause, ErrIdx: rng.Intn(10), UUID: g.uuid}
				if cause == "transient" {
					if rng.Intn(3) == 0 {
						g.uuid = uint64(rng.Int63n(1<<40)) + 1
						op.UUID = g.uuid
					}
					op.Roll = (p.PRoll == 0 && rng.Intn(5) == 0) || (p.PRoll > 0 && rng.Float64() < p.PRoll)
				}
				outs := exec(op)
				sv := &SServer{}
				if op.Roll {
					sv.Roll = []uint16{v}
				}
				afterOpen(outs, sv)
				if cause != "transient" {
					g.ended = true
				}
			})
			add(map[bool]float64{true: 0, false: p.WReb}[stopped || down], func() {
				exec(SOp{Kind: "rebclose"})
				open, balancing = false, true
			})
			add(map[bool]float64{true: 0.6, false: p.WClose}[stopped]*map[bool]float64{true: 0, false: 1}[down || p.Dcp], func() {
				exec(SOp{Kind: "close", Cancel: rng.Intn(2) == 0})
				open = false
				// a closed stream is only ever followed by a restart of the process
				exec(SOp{Kind: "crash"})
				inflight, queued = false, 0
				outstanding, acked, nCtx = nil, nil, 0
			})
		}
		if p.Dcp && !down && (open || balancing) && queued == 0 && (!inflight || saveSess == sess) {
			add(p.WShutdown, doShutdown)
		}
		if down && rng.Intn(6) == 0 {
			add(0.5, func() { exec(SOp{Kind: "shutdown", R1: true, R2: true}) }) // a second Close()
		}
		if balancing && !down {
			add(1.0, func() {
				f, l := first, last
				if rng.Float64() < p.POutOfRangeReb {
					f, l = pickRange()
				}
				sv := server(f, l, true)
				outs := exec(SOp{Kind: "rebopen", First: f, Last: l, Sv: sv})
				first, last, open, balancing = f, l, true, false
				afterOpen(outs, sv)
			})
		}
		if len(outstanding)+len(acked) > 0 {
			add(p.WAck, func() {
				var i int
				r := rng.Float64()
				switch {
				case len(outstanding) > 0 && r < p.PAckInOrd:
					// oldest outstanding of some vBucket = globally oldest is fine (delivery order per vb is preserved)
					i = outstanding[0]
					outstanding = outstanding[1:]
					acked = append(acked, i)
				case len(outstanding) > 0 && (r < p.PAckInOrd+0.2 || len(acked) == 0):
					k := rng.Intn(len(outstanding))
					i = outstanding[k]
					outstanding = append(outstanding[:k], outstanding[k+1:]...)
					acked = append(acked, i)
				default:
					i = acked[rng.Intn(len(acked))]
				}
				exec(SOp{Kind: "ack", I: i})
			})
		}
		if everOpened {
			if !inflight {
				add(p.WSave, func() {
					outs := exec(SOp{Kind: "savebegin"})
					if len(outs) == 1 && outs[0].Kind == "metasave" {
						inflight = true
						dirtyOfSave = outs[0].Dirty
						saveSess = sess
					}
				})
			} else {
				add(p.WSave*2, func() {
					if len(dirtyOfSave) > 0 && rng.Intn(2) == 0 {
						exec(SOp{Kind: "savewrite", Vb: dirtyOfSave[rng.Intn(len(dirtyOfSave))]})
						return
					}
					outs := exec(SOp{Kind: "saveend", Ok: rng.Float64() >= p.PSaveFail})
					inflight = false
					for _, o := range outs {
						if o.Kind == "metasave" { // a queued Save() took over
							inflight, dirtyOfSave = true, o.Dirty
							queued--
						}
						if o.Kind == "nosave" { // a queued Save() found nothing to do
							queued--
						}
					}
				})
				if queued < 2 && saveSess == sess && !down {
					add(p.WSave*0.5, func() {
						outs := exec(SOp{Kind: "savequeue"})
						if len(outs) == 0 {
							queued++
						}
					})
				}
			}
			add(map[bool]float64{true: 0, false: p.WCrash}[p.Dcp], func() {
				exec(SOp{Kind: "crash"})
				open, balancing, inflight, queued = false, false, false, 0
				outstanding, acked, nCtx = nil, nil, 0
			})
		}
		if open {
			add(p.WScrape, func() {
				hi := map[uint16]uint64{}
				for v := int(first); v <= int(last); v++ {
					g := vb(uint16(v))
					switch rng.Intn(4) {
					case 0:
						hi[uint16(v)] = g.maxEver
					case 1: // below the tracked position
						if g.maxEver > base+3 {
							hi[uint16(v)] = g.maxEver - uint64(1+rng.Intn(3))
						}
					default:
						hi[uint16(v)] = g.maxEver + uint64(rng.Intn(50))
					}
				}
				exec(SOp{Kind: "scrape", High: hi})
			})
		} else if (balancing || down) && rng.Intn(4) == 0 {
			add(p.WScrape, func() { exec(SOp{Kind: "scrape", High: map[uint16]uint64{}}) })
		}
		tot := 0.0
		for _, c := range cs {
			tot += c.w
		}
		if tot == 0 {
			break
		}
		x := rng.Float64() * tot
		for _, c := range cs {
			if x < c.w {
				c.f()
				break
			}
			x -= c.w
		}
	}
	// never leave the real stream held inside a callback
	if balancing && !failed && !down {
		sv := server(first, last, false)
		exec(SOp{Kind: "rebopen", First: first, Last: last, Sv: sv})
	}
	for k := 0; inflight && !failed && k < 4; k++ {
		outs := exec(SOp{Kind: "saveend", Ok: true})
		inflight = false
		for _, o := range outs {
			if o.Kind == "metasave" {
				inflight = true
			}
		}
	}
	h.Digest = d.Digest()
	d.drainSaves()
	h.Faith = d.Faith
	h.Life = d.Life
	return h
}

func minU(a, b uint64) uint64 {
	if a < b {
		return a
	}
	return b
}
