package fakes

import (
	"errors"
	"reflect"
	"sort"
	"sync"
	"time"
	"unsafe"

	"github.com/couchbase/gocbcore/v10"

	"github.com/Trendyol/go-dcp/couchbase"
	"github.com/Trendyol/go-dcp/models"
	"github.com/Trendyol/go-dcp/stream"
	"github.com/Trendyol/go-dcp/wrapper"
)

// FakeSnapshot builds a *gocbcore.ConfigSnapshot whose BucketUUID() is "" (its only field is unexported).
func FakeSnapshot() *gocbcore.ConfigSnapshot {
	snap := &gocbcore.ConfigSnapshot{}
	f := reflect.ValueOf(snap).Elem().FieldByName("state")
	nv := reflect.New(f.Type().Elem())
	reflect.NewAt(f.Type(), unsafe.Pointer(f.UnsafeAddr())).Elem().Set(nv)
	return snap
}

// Trace is one log shared by several fakes, so that the order of calls across them is known.
type Trace struct {
	mu sync.Mutex
	Ev []TraceEv
}
type TraceEv struct {
	Kind string // cb closereq openreq dcpclose cliclose save consume ping
	Name string
	Vb   uint16
	Save *SaveCall
}

func (t *Trace) Add(e TraceEv) {
	if t == nil {
		return
	}
	t.mu.Lock()
	t.Ev = append(t.Ev, e)
	t.mu.Unlock()
}
func (t *Trace) Len() int {
	if t == nil {
		return 0
	}
	t.mu.Lock()
	defer t.mu.Unlock()
	return len(t.Ev)
}
func (t *Trace) Since(n int) []TraceEv {
	if t == nil {
		return nil
	}
	t.mu.Lock()
	defer t.mu.Unlock()
	return append([]TraceEv{}, t.Ev[n:]...)
}

// OpenCall is one recorded Client.OpenStream call.
type OpenCall struct {
	VbID     uint16
	Offset   models.Offset
	Snap     models.SnapshotMarker
	Observer couchbase.Observer
}

// StreamClient is a scripted couchbase.Client for the stream core.
type StreamClient struct {
	BaseClient
	mu         sync.Mutex
	High       map[uint16]uint64 // GetVBucketSeqNos
	UUID       map[uint16]uint64 // head of the failover log / branch of the open response
	Roll       map[uint16]bool   // answer the next open of this vBucket with "rollback" first
	OpenErr    map[uint16]error  // fail the open of this vBucket
	SeqNoErr   error
	FailLogErr error
	Opens      []OpenCall
	OpenCount  int
	Closes     []uint16
	Observers  map[uint16]couchbase.Observer
	OpenCh     chan uint16     // signalled on every OpenStream call
	PingErr    error
	openNow    map[uint16]bool
	HighColl   map[uint16]uint64 // answer to GetVBucketSeqNos(true) when set; High answers GetVBucketSeqNos(false)
	EndOnClose bool          // CloseStream is followed by the end notification of that stream (servers older than 5.5.0, via gocbcore)
	EndLate    time.Duration // ... delivered this much after CloseStream has returned (0: before it returns)
	OnOpen     func(vb uint16) // called synchronously at the start of every OpenStream call
	NumVb      int
	snap       *gocbcore.ConfigSnapshot
	Trace      *Trace
	Colls      map[uint32]string // GetCollectionIDs
	Pings      int
	DcpCloses  int
	Closed     int
}

func (c *StreamClient) Ping() (*models.PingResult, error) {
	c.mu.Lock()
	c.Pings++
	err := c.PingErr
	c.mu.Unlock()
	c.Trace.Add(TraceEv{Kind: "ping"})
	if err != nil {
		return &models.PingResult{MemdEndpoint: "m"}, err
	}
	return &models.PingResult{}, nil
}

// SetPingErr makes every later Ping fail with err (nil: succeed again).
func (c *StreamClient) SetPingErr(err error) {
	c.mu.Lock()
	c.PingErr = err
	c.mu.Unlock()
}

// OpenOnServer says whether the last thing the server heard about the stream of vb was a successful open.
func (c *StreamClient) OpenOnServer(vb uint16) bool {
	c.mu.Lock()
	defer c.mu.Unlock()
	return c.openNow[vb]
}
func (c *StreamClient) DcpClose() {
	c.mu.Lock()
	c.DcpCloses++
	c.mu.Unlock()
	c.Trace.Add(TraceEv{Kind: "dcpclose"})
}
func (c *StreamClient) Close() {
	c.mu.Lock()
	c.Closed++
	c.mu.Unlock()
	c.Trace.Add(TraceEv{Kind: "cliclose"})
}
func (c *StreamClient) Counts() (pings, dcpCloses, closes, opens int) {
	c.mu.Lock()
	defer c.mu.Unlock()
	return c.Pings, c.DcpCloses, c.Closed, c.OpenCount
}

func NewStreamClient() *StreamClient {
	return &StreamClient{
		High: map[uint16]uint64{}, UUID: map[uint16]uint64{}, Roll: map[uint16]bool{}, OpenErr: map[uint16]error{},
		Observers: map[uint16]couchbase.Observer{}, OpenCh: make(chan uint16, 4096), NumVb: 1024, snap: FakeSnapshot(),
	}
}

func (c *StreamClient) GetNumVBuckets() int { return c.NumVb }
func (c *StreamClient) GetDcpAgentConfigSnapshot() (*gocbcore.ConfigSnapshot, error) {
	return c.snap, nil
}
func (c *StreamClient) GetVBucketSeqNos(awareCollection bool) (*wrapper.ConcurrentSwissMap[uint16, uint64], error) {
	c.mu.Lock()
	defer c.mu.Unlock()
	if c.SeqNoErr != nil {
		return nil, c.SeqNoErr
	}
	m := wrapper.CreateConcurrentSwissMap[uint16, uint64](64)
	src := c.High
	if awareCollection && c.HighColl != nil {
		// the high seqnos of the streamed collections only (what the metric collector asks for): lower than the vBucket's own
		// when its newest documents are in other collections
		src = c.HighColl
	}
	for k, v := range src {
		m.Store(k, v)
	}
	return m, nil
}
func (c *StreamClient) GetFailOverLogs(vb uint16) ([]gocbcore.FailoverEntry, error) {
	c.mu.Lock()
	defer c.mu.Unlock()
	if c.FailLogErr != nil {
		return nil, c.FailLogErr
	}
	// newest branch first, as the server sends it; older branches (0..2 of them, by vBucket) carry other identifiers
	log := []gocbcore.FailoverEntry{{VbUUID: gocbcore.VbUUID(c.UUID[vb]), SeqNo: 0}}
	for i := 0; i < int(vb%3); i++ {
		log = append(log, gocbcore.FailoverEntry{VbUUID: gocbcore.VbUUID(c.UUID[vb] + 1000003*uint64(i+1)), SeqNo: 0})
	}
	return log, nil
}
func (c *StreamClient) GetCollectionIDs(string, []string) (map[uint32]string, error) {
	m := map[uint32]string{}
	for k, v := range c.Colls {
		m[k] = v
	}
	return m, nil
}
func (c *StreamClient) OpenStream(vb uint16, _ map[uint32]string, o *models.Offset, ob couchbase.Observer) error {
	if c.OnOpen != nil {
		c.OnOpen(vb)
	}
	c.mu.Lock()
	call := OpenCall{VbID: vb, Offset: *o, Observer: ob}
	if o.SnapshotMarker != nil {
		call.Snap = *o.SnapshotMarker
	}
	c.Opens = append(c.Opens, call)
	c.OpenCount++
	c.Trace.Add(TraceEv{Kind: "openreq", Vb: vb})
	err := c.OpenErr[vb]
	if err == nil {
		if c.openNow == nil {
			c.openNow = map[uint16]bool{}
		}
		c.openNow[vb] = true
		c.Observers[vb] = ob
		// what the real client does on success (client.go OpenStream / openStreamWithRollback)
		ob.SetVbUUID(gocbcore.VbUUID(c.UUID[vb]))
		if c.Roll[vb] {
			ob.SetCatchup(gocbcore.SeqNo(o.SeqNo))
			c.Roll[vb] = false
		}
	}
	c.mu.Unlock()
	c.OpenCh <- vb
	return err
}
func (c *StreamClient) CloseStream(vb uint16) error {
	c.mu.Lock()
	c.Closes = append(c.Closes, vb)
	if c.openNow != nil {
		c.openNow[vb] = false
	}
	ob := c.Observers[vb]
	end := c.EndOnClose
	c.mu.Unlock()
	c.Trace.Add(TraceEv{Kind: "closereq", Vb: vb})
	if end && ob != nil {
		// servers older than 5.5.0 send no end notification for a closed stream; gocbcore makes one up when the close
		// response arrives and hands it to its DCP buffer goroutine, then resolves the close request: the notification
		// is delivered around the time CloseStream returns. EndLate > 0: that much after it.
		if c.EndLate > 0 {
			go func() {
				time.Sleep(c.EndLate)
				ob.End(models.DcpStreamEnd{VbID: vb}, gocbcore.ErrDCPStreamClosed)
			}()
		} else {
			ob.End(models.DcpStreamEnd{VbID: vb}, gocbcore.ErrDCPStreamClosed)
		}
	}
	return nil
}
func (c *StreamClient) SetOpenErr(vb uint16, err error) {
	c.mu.Lock()
	defer c.mu.Unlock()
	if err == nil {
		delete(c.OpenErr, vb)
	} else {
		c.OpenErr[vb] = err
	}
}

func (c *StreamClient) TakeOpens() []OpenCall {
	c.mu.Lock()
	defer c.mu.Unlock()
	r := c.Opens
	c.Opens = nil
	sort.SliceStable(r, func(i, j int) bool { return r[i].VbID < r[j].VbID })
	return r
}
func (c *StreamClient) TakeCloses() []uint16 {
	c.mu.Lock()
	defer c.mu.Unlock()
	r := c.Closes
	c.Closes = nil
	sort.Slice(r, func(i, j int) bool { return r[i] < r[j] })
	return r
}
// AllObservers returns the observers of the streams opened last, by vBucket.
func (c *StreamClient) AllObservers() map[uint16]couchbase.Observer {
	c.mu.Lock()
	defer c.mu.Unlock()
	r := map[uint16]couchbase.Observer{}
	for k, v := range c.Observers {
		r[k] = v
	}
	return r
}
func (c *StreamClient) Observer(vb uint16) couchbase.Observer {
	c.mu.Lock()
	defer c.mu.Unlock()
	return c.Observers[vb]
}

// SaveCall is one recorded Metadata.Save call.
type SaveCall struct {
	Dump  map[uint16]models.CheckpointDocument
	Dirty map[uint16]bool
}

// Store is a durable per-vBucket document store with a gate in Save, behaving like the Couchbase
// backend: only dirty documents are written, a vBucket without a document loads as the empty document.
type Store struct {
	mu       sync.Mutex
	Docs     map[uint16]models.CheckpointDocument
	Entered  chan *SaveCall // a Save call arrived (and is now blocked)
	release  chan error
	cur      *SaveCall
	LoadErr  error
	Saves    int
	Gate     bool // block in Save until Release
	Trace    *Trace
	FileLike bool // Load behaves like the file backend with an existing file: only the stored documents, exist = true
	Loads    int
	OnLoad   func(n int) // called at the start of the n-th Load (1-based), before the store is read, outside its lock
}

func NewStore() *Store {
	return &Store{Docs: map[uint16]models.CheckpointDocument{}, Entered: make(chan *SaveCall, 16), release: make(chan error), Gate: true}
}

func copyDoc(d *models.CheckpointDocument) models.CheckpointDocument {
	r := models.CheckpointDocument{BucketUUID: d.BucketUUID}
	if d.Checkpoint != nil {
		c := *d.Checkpoint
		if c.Snapshot != nil {
			s := *c.Snapshot
			c.Snapshot = &s
		}
		r.Checkpoint = &c
	}
	return r
}

func (s *Store) Save(state map[uint16]*models.CheckpointDocument, dirty map[uint16]bool, _ string) error {
	call := &SaveCall{Dump: map[uint16]models.CheckpointDocument{}, Dirty: map[uint16]bool{}}
	for k, v := range state {
		call.Dump[k] = copyDoc(v)
	}
	for k, v := range dirty {
		call.Dirty[k] = v
	}
	s.Trace.Add(TraceEv{Kind: "save", Save: call})
	s.mu.Lock()
	s.cur = call
	s.Saves++
	gate := s.Gate
	s.mu.Unlock()
	if !gate {
		s.mu.Lock()
		for vb, d := range call.Dump {
			if call.Dirty[vb] {
				s.Docs[vb] = d
			}
		}
		s.cur = nil
		s.mu.Unlock()
		return nil
	}
	s.Entered <- call
	err := <-s.release
	s.mu.Lock()
	if s.cur == call { // a queued save may already have entered
		s.cur = nil
	}
	s.mu.Unlock()
	return err
}

// Write lets the write of one dirty vBucket of the in-flight save land. False if not enabled.
func (s *Store) Write(vb uint16) bool {
	s.mu.Lock()
	defer s.mu.Unlock()
	if s.cur == nil || !s.cur.Dirty[vb] {
		return false
	}
	d, ok := s.cur.Dump[vb]
	if !ok {
		return false
	}
	s.Docs[vb] = d
	return true
}

// Release lets the in-flight save return; with ok every remaining dirty document is written first.
func (s *Store) Release(ok bool) bool {
	s.mu.Lock()
	if s.cur == nil {
		s.mu.Unlock()
		return false
	}
	var err error
	if ok {
		for vb, d := range s.cur.Dump {
			if s.cur.Dirty[vb] {
				s.Docs[vb] = d
			}
		}
	} else {
		err = errors.New("scripted metadata save failure")
	}
	s.mu.Unlock()
	s.release <- err
	return true
}

func (s *Store) SaveCount() int {
	s.mu.Lock()
	defer s.mu.Unlock()
	return s.Saves
}

func (s *Store) InFlight() bool {
	s.mu.Lock()
	defer s.mu.Unlock()
	return s.cur != nil
}

func (s *Store) Load(vbIds []uint16, bucketUUID string) (*wrapper.ConcurrentSwissMap[uint16, *models.CheckpointDocument], bool, error) {
	s.mu.Lock()
	s.Loads++
	n, hook := s.Loads, s.OnLoad
	s.mu.Unlock()
	if hook != nil {
		hook(n)
	}
	s.mu.Lock()
	defer s.mu.Unlock()
	if s.LoadErr != nil {
		return nil, false, s.LoadErr
	}
	m := wrapper.CreateConcurrentSwissMap[uint16, *models.CheckpointDocument](64)
	exist := false
	if s.FileLike {
		for vb, d := range s.Docs {
			dd := copyDoc(&d)
			m.Store(vb, &dd)
		}
		return m, true, nil
	}
	for _, vb := range vbIds {
		if d, ok := s.Docs[vb]; ok {
			dd := copyDoc(&d)
			m.Store(vb, &dd)
			exist = true
		} else {
			m.Store(vb, models.NewEmptyCheckpointDocument(bucketUUID))
		}
	}
	return m, exist, nil
}
func (s *Store) Clear([]uint16) error { return nil }
func (s *Store) Snapshot() map[uint16]models.CheckpointDocument {
	s.mu.Lock()
	defer s.mu.Unlock()
	r := map[uint16]models.CheckpointDocument{}
	for k, v := range s.Docs {
		r[k] = copyDoc(&v)
	}
	return r
}

// Consumer records every context and TrackOffset call.
type TrackCall struct {
	VbID   uint16
	Offset models.Offset
	Snap   models.SnapshotMarker
}
type Consumer struct {
	mu     sync.Mutex
	Ctxs   []*models.ListenerContext
	Tracks []TrackCall
	New    []*models.ListenerContext // since last Take
	Trace  *Trace
	Hold   chan struct{} // when set, ConsumeEvent blocks on it after recording
}

func (c *Consumer) ConsumeEvent(ctx *models.ListenerContext) {
	c.mu.Lock()
	c.Ctxs = append(c.Ctxs, ctx)
	c.New = append(c.New, ctx)
	hold := c.Hold
	c.mu.Unlock()
	c.Trace.Add(TraceEv{Kind: "consume"})
	if hold != nil {
		<-hold
	}
}
func (c *Consumer) SetHold(ch chan struct{}) {
	c.mu.Lock()
	c.Hold = ch
	c.mu.Unlock()
}
func (c *Consumer) Count() int {
	c.mu.Lock()
	defer c.mu.Unlock()
	return len(c.Ctxs)
}
func (c *Consumer) TrackOffset(vb uint16, o *models.Offset) {
	c.mu.Lock()
	t := TrackCall{VbID: vb, Offset: *o}
	if o.SnapshotMarker != nil {
		t.Snap = *o.SnapshotMarker
	}
	c.Tracks = append(c.Tracks, t)
	c.mu.Unlock()
}
func (c *Consumer) Take() ([]*models.ListenerContext, []TrackCall) {
	c.mu.Lock()
	defer c.mu.Unlock()
	n, t := c.New, c.Tracks
	c.New, c.Tracks = nil, nil
	return n, t
}
func (c *Consumer) Ctx(i int) *models.ListenerContext {
	c.mu.Lock()
	defer c.mu.Unlock()
	if i < 0 || i >= len(c.Ctxs) {
		return nil
	}
	return c.Ctxs[i]
}

// Discovery is a stream.VBucketDiscovery whose answer the harness sets.
type Discovery struct {
	mu     sync.Mutex
	First  uint16
	Last   uint16
	Metric stream.VBucketDiscoveryMetric
	Gets   int
}

func (d *Discovery) Set(first, last uint16) {
	d.mu.Lock()
	d.First, d.Last = first, last
	d.mu.Unlock()
}
func (d *Discovery) Get() []uint16 {
	d.mu.Lock()
	defer d.mu.Unlock()
	d.Gets++
	var r []uint16
	for v := int(d.First); v <= int(d.Last); v++ {
		r = append(r, uint16(v))
	}
	d.Metric.VBucketRangeStart, d.Metric.VBucketRangeEnd = d.First, d.Last
	return r
}
func (d *Discovery) Close()                                    {}
func (d *Discovery) GetMetric() *stream.VBucketDiscoveryMetric { return &d.Metric }

// Handler records the lifecycle callbacks and can hold the caller inside one of them.
type Handler struct {
	mu     sync.Mutex
	Log    []string
	HoldAt map[string]bool
	Held   chan string   // signalled when a callback is being held
	resume chan struct{} // released by Resume
	Trace  *Trace
	heldAt map[string]time.Time
}

func NewHandler() *Handler {
	return &Handler{HoldAt: map[string]bool{}, Held: make(chan string, 64), resume: make(chan struct{})}
}
func (h *Handler) cb(name string) {
	h.mu.Lock()
	h.Log = append(h.Log, name)
	hold := h.HoldAt[name]
	h.mu.Unlock()
	h.Trace.Add(TraceEv{Kind: "cb", Name: name})
	if hold {
		h.mu.Lock()
		if h.heldAt == nil {
			h.heldAt = map[string]time.Time{}
		}
		h.heldAt[name] = time.Now()
		h.mu.Unlock()
		h.Held <- name
		<-h.resume
	}
}

// HeldAt says when the callback called name was last held.
func (h *Handler) HeldAt(name string) time.Time {
	h.mu.Lock()
	defer h.mu.Unlock()
	return h.heldAt[name]
}
func (h *Handler) SetHold(name string, on bool) {
	h.mu.Lock()
	h.HoldAt[name] = on
	h.mu.Unlock()
}

// Resume releases one held callback; false if nothing was held within a second.
func (h *Handler) Resume() bool {
	select {
	case h.resume <- struct{}{}:
		return true
	case <-time.After(time.Second):
		return false
	}
}
func (h *Handler) Peek() []string {
	h.mu.Lock()
	defer h.mu.Unlock()
	return append([]string{}, h.Log...)
}

// TakeThrough removes and returns the log up to and including the first entry called name (everything if there is none).
func (h *Handler) TakeThrough(name string) []string {
	h.mu.Lock()
	defer h.mu.Unlock()
	for i, n := range h.Log {
		if n == name {
			r := append([]string{}, h.Log[:i+1]...)
			h.Log = append([]string{}, h.Log[i+1:]...)
			return r
		}
	}
	r := h.Log
	h.Log = nil
	return r
}
func (h *Handler) Take() []string {
	h.mu.Lock()
	defer h.mu.Unlock()
	r := h.Log
	h.Log = nil
	return r
}
func (h *Handler) BeforeRebalanceStart() { h.cb("BeforeRebalanceStart") }
func (h *Handler) AfterRebalanceStart()  { h.cb("AfterRebalanceStart") }
func (h *Handler) BeforeRebalanceEnd()   { h.cb("BeforeRebalanceEnd") }
func (h *Handler) AfterRebalanceEnd()    { h.cb("AfterRebalanceEnd") }
func (h *Handler) BeforeStreamStart()    { h.cb("BeforeStreamStart") }
func (h *Handler) AfterStreamStart()     { h.cb("AfterStreamStart") }
func (h *Handler) BeforeStreamStop()     { h.cb("BeforeStreamStop") }
func (h *Handler) AfterStreamStop()      { h.cb("AfterStreamStop") }
