// Package fakes holds interface-level stand-ins for the collaborators of the library.
package fakes

import (
	"github.com/couchbase/gocbcore/v10"

	"github.com/Trendyol/go-dcp/couchbase"
	"github.com/Trendyol/go-dcp/models"
	"github.com/Trendyol/go-dcp/wrapper"
)

// BaseClient implements couchbase.Client; every method fails loudly. Embed it and override.
type BaseClient struct{}

var _ couchbase.Client = (*BaseClient)(nil)

func (*BaseClient) Ping() (*models.PingResult, error)    { panic("fake: Ping not scripted") }
func (*BaseClient) GetAgent() *gocbcore.Agent            { panic("fake: GetAgent not scripted") }
func (*BaseClient) GetMetaAgent() *gocbcore.Agent        { panic("fake: GetMetaAgent not scripted") }
func (*BaseClient) Connect() error                       { return nil }
func (*BaseClient) Close()                               {}
func (*BaseClient) DcpConnect(bool, bool) error          { return nil }
func (*BaseClient) DcpClose()                            {}
func (*BaseClient) GetNumVBuckets() int                  { panic("fake: GetNumVBuckets not scripted") }
func (*BaseClient) CloseStream(uint16) error             { panic("fake: CloseStream not scripted") }
func (*BaseClient) GetAgentQueues() []*models.AgentQueue { return nil }
func (*BaseClient) GetVBucketSeqNos(bool) (*wrapper.ConcurrentSwissMap[uint16, uint64], error) {
	panic("fake: GetVBucketSeqNos not scripted")
}
func (*BaseClient) GetFailOverLogs(uint16) ([]gocbcore.FailoverEntry, error) {
	panic("fake: GetFailOverLogs not scripted")
}
func (*BaseClient) OpenStream(uint16, map[uint32]string, *models.Offset, couchbase.Observer) error {
	panic("fake: OpenStream not scripted")
}
func (*BaseClient) GetCollectionIDs(string, []string) (map[uint32]string, error) {
	panic("fake: GetCollectionIDs not scripted")
}
func (*BaseClient) GetAgentConfigSnapshot() (*gocbcore.ConfigSnapshot, error) {
	panic("fake: GetAgentConfigSnapshot not scripted")
}
func (*BaseClient) GetDcpAgentConfigSnapshot() (*gocbcore.ConfigSnapshot, error) {
	panic("fake: GetDcpAgentConfigSnapshot not scripted")
}
