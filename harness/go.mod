module verifharness

go 1.21

require (
	github.com/Trendyol/go-dcp v0.0.0
	github.com/asaskevich/EventBus v0.0.0-20200907212545-49d423059eef
	github.com/couchbase/gocbcore/v10 v10.5.2
	github.com/prometheus/client_golang v1.20.5
	github.com/prometheus/client_model v0.6.1
	github.com/sirupsen/logrus v1.9.3
)

require (
	github.com/andybalholm/brotli v1.1.1 // indirect
	github.com/ansrivas/fiberprometheus/v2 v2.7.0 // indirect
	github.com/beorn7/perks v1.0.1 // indirect
	github.com/bytedance/sonic v1.12.8 // indirect
	github.com/bytedance/sonic/loader v0.2.2 // indirect
	github.com/cespare/xxhash/v2 v2.3.0 // indirect
	github.com/cloudwego/base64x v0.1.5 // indirect
	github.com/davecgh/go-spew v1.1.1 // indirect
	github.com/emicklei/go-restful/v3 v3.11.0 // indirect
	github.com/go-logr/logr v1.4.1 // indirect
	github.com/go-openapi/jsonpointer v0.19.6 // indirect
	github.com/go-openapi/jsonreference v0.20.2 // indirect
	github.com/go-openapi/swag v0.22.3 // indirect
	github.com/gofiber/fiber/v2 v2.52.5 // indirect
	github.com/gogo/protobuf v1.3.2 // indirect
	github.com/golang/protobuf v1.5.4 // indirect
	github.com/golang/snappy v0.0.4 // indirect
	github.com/google/gnostic-models v0.6.8 // indirect
	github.com/google/gofuzz v1.2.0 // indirect
	github.com/google/uuid v1.6.0 // indirect
	github.com/josharian/intern v1.0.0 // indirect
	github.com/json-iterator/go v1.1.12 // indirect
	github.com/klauspost/compress v1.17.11 // indirect
	github.com/klauspost/cpuid/v2 v2.0.9 // indirect
	github.com/mailru/easyjson v0.7.7 // indirect
	github.com/mattn/go-colorable v0.1.13 // indirect
	github.com/mattn/go-isatty v0.0.20 // indirect
	github.com/mattn/go-runewidth v0.0.15 // indirect
	github.com/mhmtszr/concurrent-swiss-map v1.0.8 // indirect
	github.com/modern-go/concurrent v0.0.0-20180306012644-bacd9c7ef1dd // indirect
	github.com/modern-go/reflect2 v1.0.2 // indirect
	github.com/munnerz/goautoneg v0.0.0-20191010083416-a7dc8b61c822 // indirect
	github.com/prometheus/common v0.58.0 // indirect
	github.com/prometheus/procfs v0.15.1 // indirect
	github.com/rivo/uniseg v0.4.7 // indirect
	github.com/twitchyliquid64/golang-asm v0.15.1 // indirect
	github.com/valyala/bytebufferpool v1.0.0 // indirect
	github.com/valyala/fasthttp v1.57.0 // indirect
	github.com/valyala/tcplisten v1.0.0 // indirect
	golang.org/x/arch v0.0.0-20210923205945-b76863e36670 // indirect
	golang.org/x/net v0.33.0 // indirect
	golang.org/x/oauth2 v0.22.0 // indirect
	golang.org/x/sync v0.10.0 // indirect
	golang.org/x/sys v0.28.0 // indirect
	golang.org/x/term v0.27.0 // indirect
	golang.org/x/text v0.21.0 // indirect
	golang.org/x/time v0.3.0 // indirect
	google.golang.org/protobuf v1.36.4 // indirect
	gopkg.in/inf.v0 v0.9.1 // indirect
	gopkg.in/yaml.v2 v2.4.0 // indirect
	gopkg.in/yaml.v3 v3.0.1 // indirect
	k8s.io/api v0.29.4 // indirect
	k8s.io/apimachinery v0.29.4 // indirect
	k8s.io/client-go v0.29.4 // indirect
	k8s.io/klog/v2 v2.110.1 // indirect
	k8s.io/kube-openapi v0.0.0-20231010175941-2dd684a91f00 // indirect
	k8s.io/utils v0.0.0-20230726121419-3b25d923346b // indirect
	sigs.k8s.io/json v0.0.0-20221116044647-bc3834ca7abd // indirect
	sigs.k8s.io/structured-merge-diff/v4 v4.4.1 // indirect
	sigs.k8s.io/yaml v1.3.0 // indirect
)

replace github.com/Trendyol/go-dcp => /repo
